"""C20  Configuration round-trips, is project-local, and reaches the selected backend."""

import json
import os
import re

from hypothesis import strategies as st

from vlib import gen, project
from vlib.runner import CaseResult, Violation

ID = "C20"
LEVEL = "exploration"
TECHNIQUE = ("Hypothesis-generated set/get/unset sequences over keys sharing prefixes and values of every coercion "
             "class against a dict model with admissible sets; precedence (flag > config > default) and namespace "
             "reach observed through the simulated schedulers' command log, log verbosity and a pty for colours")
RULE = ("case kinds: 'seq' = 3-12 config set/get/unset operations over a key pool (plain, dotted, keys sharing prefixes "
        "such as backend.slurm.x / backend.slurmx.y, built-in keys with defaults) and values (canonical integers, "
        "true/yes/false/no, other casings, empty, floats, text, borderline integer spellings), each run as its own gwf "
        "invocation from the project root or a nested directory; oracle = dict model: get prints the stored value "
        "(canonical int -> int, the four words -> boolean, text unchanged, borderline spellings admit either), unset "
        "removes only that key and exits 0 also for unset keys, other keys undisturbed, .gwfconf.json sits next to the "
        "workflow file and nowhere else. 'prec' = combination of flag/config/none for backend (observed: which scheduler's "
        "commands run), verbosity (observed: info/debug lines) and colour (observed: ANSI escapes on a pty, real "
        "sub-process). 'ns' = backend namespaces: slurm accounting switch (sacct never/always called), slurm log mode "
        "(directives in the submitted script), keys of other or look-alike namespaces must not reach the selected backend. "
        "Non-trivial: a sequence touching >=2 keys sharing a prefix with an unset, or any prec/ns case. "
        "Distinct = SHA-1 of canonical case JSON.")
ASSUMPTIONS = [
    "keys and values starting with '-' are not generated (they would be parsed as options)",
    "unknown keys inside the selected backend's own namespace are not generated (the backend constructor rejects them)",
    "colour is observed on a pseudo-terminal in a real gwf sub-process",
]
BUDGET = {
    "quick": {"examples": 220, "wall_s": 100, "shards": 4},
    "thorough": {"examples": 1600, "wall_s": 1500, "shards": 16},
}

KEYS = ["a", "a.b", "a.bc", "ab", "k", "k.k", "backend.slurm.log_mode", "backend.slurmx.y", "backend.slurm",
        "backend.local.port", "verbose", "clean_logs", "use_spec_hashes", "no_color", "zeta", "local.port"]
DEFAULTS = {"verbose": "info", "clean_logs": True, "use_spec_hashes": False}
VALUES = ["0", "1", "42", "-7", "12345678901234567890", "true", "yes", "false", "no", "True", "YES", "No", "FALSE",
          "", "1.5", "text", "two words", "full", "merged", "none", "warning", "007", "+1", " 1", "1_0", "١٢", "1e3",
          "0x10", "nul", "on", "off", "-0", "tru", "yess", "{\"a\": 1}", "[1]", "null", "üñí"]


def classify(v):
    """-> (list of admissible stored JSON values)"""
    if re.fullmatch(r"-?(0|[1-9][0-9]*)", v) and v != "-0":
        return [int(v)]
    if v in ("true", "yes"):
        return [True]
    if v in ("false", "no"):
        return [False]
    adm = [v]
    if v.lower() in ("true", "yes"):
        adm.append(True)
    if v.lower() in ("false", "no"):
        adm.append(False)
    try:
        adm.append(int(v))  # borderline spellings Python's int() accepts: admit either
    except ValueError:
        pass
    return adm


def shown(val):
    return str(val)


@st.composite
def _seq(draw):
    n = draw(st.integers(3, 12))
    ops = []
    for _ in range(n):
        kind = draw(st.sampled_from(["set", "set", "set", "get", "unset", "unset"]))
        key = draw(st.sampled_from(KEYS))
        cwd = draw(st.sampled_from(["", "", "sub", "sub/deeper"]))
        if kind == "set":
            ops.append(["set", key, draw(st.sampled_from(VALUES)), cwd])
        else:
            ops.append([kind, key, cwd])
    return {"kind": "seq", "ops": ops, "bflags": draw(st.lists(st.sampled_from([None, None, "slurm", "sge", "lsf"]), max_size=4)),
            "invoke": {"plan": [0], "obj": None, "wf_link": True} if draw(st.integers(0, 3)) == 0 else None}


@st.composite
def _prec(draw):
    return {
        "kind": "prec",
        "invoke": draw(gen.invoke()),
        "backend_flag": draw(st.sampled_from([None, "slurm", "sge", "lsf"])),
        # a backend is always selected somewhere: with neither flag nor config gwf guesses, and the guess
        # (local pool on this machine) would wait for workers that nobody started
        "backend_conf": draw(st.sampled_from(["slurm", "sge", "lsf"])),
        "verbose_flag": draw(st.sampled_from([None, "warning", "info", "debug", "error"])),
        "verbose_conf": draw(st.sampled_from([None, "warning", "info", "debug", "error"])),
        "color_flag": draw(st.sampled_from([None, "--no-color", "--use-color"])),
        "color_conf": draw(st.sampled_from([None, True, False])),
        "color_env": draw(st.sampled_from([None, "1"])),
        "pty": draw(st.sampled_from([False, False, False, True])),
    }


@st.composite
def _ns(draw):
    return {
        "kind": "ns",
        "invoke": draw(gen.invoke()),
        "backend": draw(st.sampled_from(["slurm", "slurm", "sge", "lsf"])),
        "accounting": draw(st.sampled_from([None, True, False])),
        "log_mode": draw(st.sampled_from([None, "full", "merged", "none"])),
        "config_via": draw(st.sampled_from(["file", "cli"])),
        "foreign": draw(st.lists(st.sampled_from(["backend.slurmx.y", "backend.sge.zz", "backend.local.port",
                                                  "backend.lsfx", "backend.slurm_extra.k", "local.port",
                                                  "backend.slu.log_mode",
                                                  # settings parked under another prefix: the namespace occurs inside the key
                                                  "old.backend.slurm.log_mode", "x.backend.slurm.accounting_enabled",
                                                  "notes.backend.sge.zz", "old.backend.lsf.q"]), max_size=3, unique=True)),
    }


def strategy(tier):
    return st.one_of(_seq(), _seq(), _prec(), _ns())


def enumerate_cases(tier):
    """Every flag x config x environment combination for colour (observed on a pty), and every flag x config
    combination for verbosity and backend: small finite spaces, enumerated completely."""
    for flag in (None, "--no-color", "--use-color"):
        for conf in (None, True, False):
            for env in (None, "1"):
                yield {"kind": "prec", "backend_flag": None, "backend_conf": "slurm", "verbose_flag": None,
                       "verbose_conf": None, "color_flag": flag, "color_conf": conf, "color_env": env, "pty": True}
    levels = (None, "warning", "info", "debug", "error")
    for vf in levels:
        for vc in levels:
            yield {"kind": "prec", "backend_flag": None, "backend_conf": "slurm", "verbose_flag": vf, "verbose_conf": vc,
                   "color_flag": None, "color_conf": None, "color_env": None, "pty": False}
    for bf in (None, "slurm", "sge", "lsf"):
        for bc in ("slurm", "sge", "lsf"):
            yield {"kind": "prec", "backend_flag": bf, "backend_conf": bc, "verbose_flag": None, "verbose_conf": None,
                   "color_flag": None, "color_conf": None, "color_env": None, "pty": False}


DESC = {"targets": [{"name": "A", "inputs": [], "outputs": ["a"], "spec": "echo A\n", "wd": None},
                    {"name": "B", "inputs": ["a"], "outputs": ["b"], "spec": "echo B\n", "wd": None}], "files": {}}


def run_seq(case):
    viols, labels = [], set()
    model = {}
    with project.Project(DESC, backend="slurm", subdirs=["sub/deeper"], invoke=case.get("invoke")) as proj:
        os.remove(proj.path(".gwfconf.json"))
        touched = []
        unset_seen = False
        flags = case.get("bflags") or []

        def bflag(i):
            # a backend chosen on the command line applies to that invocation only: it is not a setting
            f = flags[(i - 1) % len(flags)] if flags else None
            if f:
                labels.add("backend-flag-on-config-command")
            return ["-b", f] if f else []

        for i, op in enumerate(case["ops"], 1):
            kind, key = op[0], op[1]
            cwd = proj.path(op[-1]) if op[-1] else proj.dir
            touched.append(key)
            if kind == "set":
                r = proj.gwf(bflag(i) + ["config", "set", "--", key, op[2]], cwd=cwd)
                if r.code != 0 or r.crashed:
                    viols.append(Violation({"kind": "set-failed", "exc": type(r.exc).__name__ if r.exc else None}, r.brief()))
                    break
                model[key] = classify(op[2])
                adm = model[key]
                cls = ("borderline" if len(adm) > 1 else "bool" if isinstance(adm[0], bool) else
                       "int" if isinstance(adm[0], int) else "text")
                labels.add("class-" + cls)
            elif kind == "unset":
                unset_seen = True
                r = proj.gwf(bflag(i) + ["config", "unset", "--", key], cwd=cwd)
                if r.code != 0 or r.crashed:
                    viols.append(Violation({"kind": "unset-failed", "was_set": key in model, "has_default": key in DEFAULTS,
                                            "exc": type(r.exc).__name__ if r.exc else None},
                                           f"unset of {'a set' if key in model else 'an unset'} key {key!r}: " + r.brief()))
                    break
                model.pop(key, None)
            # after every operation: read every key of the pool back, in a fresh invocation
            try:
                with open(proj.path(".gwfconf.json")) as f:
                    disk = json.load(f)
            except FileNotFoundError:
                disk = {}
            if set(disk) != set(model):
                viols.append(Violation({"kind": "file-keys", "op": kind},
                                       f"after {op}: file has keys {sorted(disk)}, model {sorted(model)}"))
                break
            for k, adm in model.items():
                if not any(type(disk[k]) is type(a) and disk[k] == a for a in adm):
                    viols.append(Violation({"kind": "stored-value", "op": kind},
                                           f"after {op}: {k!r} stored as {disk[k]!r}, admissible {adm!r}"))
            probe = [key] + [k for k in KEYS if k != key][: 3]
            for k in probe:
                g = proj.gwf(["config", "get", "--", k], cwd=cwd)
                if g.code != 0 or g.crashed:
                    viols.append(Violation({"kind": "get-failed"}, g.brief()))
                    continue
                out = g.out[:-1] if g.out.endswith("\n") else g.out
                if k in model:
                    exp = [shown(a) for a in model[k]]
                elif k in DEFAULTS:
                    exp = [shown(DEFAULTS[k])]
                else:
                    exp = ["<not set>"]
                if out not in exp:
                    viols.append(Violation({"kind": "get-value", "op": kind},
                                           f"after {op}: get {k!r} printed {out!r}, expected one of {exp!r}"))
            for d in ("sub", "sub/deeper"):
                if os.path.exists(proj.path(os.path.join(d, ".gwfconf.json"))) or os.path.isdir(proj.path(os.path.join(d, ".gwf"))):
                    viols.append(Violation({"kind": "config-not-project-local"},
                                           f"configuration or state directory created in {d}/ instead of next to the workflow file"))
            if viols:
                break
            if not viols and any(op[0] == "set" and not op[2].isascii() for op in case["ops"]):
                # a later invocation on a machine with another locale (cluster node, cron) still reads the file
                labels.add("other-locale-invocation")
                rs = proj.gwf_sub(["config", "get", "--", "verbose"],
                                  extra_env={"LC_ALL": "C", "LANG": "C", "PYTHONUTF8": "0", "PYTHONCOERCECLOCALE": "0"})
                exp = shown(model["verbose"][0]) if "verbose" in model else "info"
                if rs.code != 0 or (len(model.get("verbose", [0])) == 1 and rs.out.strip() != exp):
                    viols.append(Violation({"kind": "config-unreadable-under-other-locale"},
                                           f"after storing a non-ASCII value, `gwf config get verbose` under LC_ALL=C: {rs.brief()}"))
    pref = any(a != b and (a.startswith(b) or b.startswith(a)) for a in set(touched) for b in set(touched))
    return CaseResult(viols, pref and unset_seen, sorted(labels | {"seq"}))


def _which_backend(sim_log):
    cmds = {e["cmd"] for e in sim_log}
    out = set()
    if cmds & {"squeue", "sacct", "sbatch"}:
        out.add("slurm")
    if cmds & {"qstat", "qsub"}:
        out.add("sge")
    if cmds & {"bjobs", "bsub"}:
        out.add("lsf")
    return out


def run_prec(case):
    viols, labels = [], {"prec"}
    cfg = {}
    if case["backend_conf"]:
        cfg["backend"] = case["backend_conf"]
    if case["verbose_conf"]:
        cfg["verbose"] = case["verbose_conf"]
    if case["color_conf"] is not None:
        cfg["no_color"] = case["color_conf"]
    with project.Project(DESC, backend="slurm", invoke=case.get("invoke")) as proj:
        proj.write_config(cfg)
        flags = []
        if case["backend_flag"]:
            flags += ["-b", case["backend_flag"]]
        if case["verbose_flag"]:
            flags += ["-v", case["verbose_flag"]]
        if case["color_flag"]:
            flags.append(case["color_flag"])
        env = {"NO_COLOR": case["color_env"]} if case["color_env"] else {}
        # first a submitting run (to have a tracked job, so that every backend issues a query), then dry-run
        want_backend = case["backend_flag"] or case["backend_conf"]
        r0 = proj.gwf(flags + ["run", "A"], extra_env=env)
        used = _which_backend(proj.sim.log)
        if r0.code != 0 or r0.crashed:
            viols.append(Violation({"kind": "run-failed", "exc": type(r0.exc).__name__ if r0.exc else None}, r0.brief()))
        elif want_backend and used != {want_backend}:
            src = "flag" if case["backend_flag"] else "config"
            viols.append(Violation({"kind": "backend-precedence", "source": src},
                                   f"backend {want_backend} selected by {src} (flag {case['backend_flag']}, config "
                                   f"{case['backend_conf']}) but commands of {sorted(used)} were run"))
        n0 = len(proj.sim.log)
        rcancel = proj.gwf(flags + ["cancel", "-f"], extra_env=env)
        used_c = _which_backend(proj.sim.log[n0:]) | {b_ for b_, c_ in (("slurm", "scancel"), ("sge", "qdel"), ("lsf", "bkill"))
                                                     if any(e["cmd"] == c_ for e in proj.sim.log[n0:])}
        if rcancel.crashed:
            viols.append(Violation({"kind": "cancel-crashed"}, rcancel.brief()))
        elif want_backend and used_c != {want_backend}:
            src = "flag" if case["backend_flag"] else "config"
            viols.append(Violation({"kind": "backend-precedence", "source": src, "cmd": "cancel"},
                                   f"`gwf cancel`: backend {want_backend} selected by {src} (flag {case['backend_flag']}, config "
                                   f"{case['backend_conf']}) but commands of {sorted(used_c)} were run"))
        r = proj.gwf(flags + ["run", "--dry-run"], extra_env=env)
        level = case["verbose_flag"] or case["verbose_conf"] or "info"
        has_info = "Would submit" in r.err
        has_debug = "Loading workflow from" in r.err or "Checking for circular" in r.err
        want_info = level in ("info", "debug")
        want_debug = level == "debug"
        if r.code != 0 or r.crashed:
            viols.append(Violation({"kind": "dry-run-failed"}, r.brief()))
        elif (has_info, has_debug) != (want_info, want_debug):
            src = "flag" if case["verbose_flag"] else "config" if case["verbose_conf"] else "default"
            viols.append(Violation({"kind": "verbosity-precedence", "source": src},
                                   f"verbosity {level} from {src} (flag {case['verbose_flag']}, config {case['verbose_conf']}): "
                                   f"info lines {has_info}, debug lines {has_debug}"))
        if case["pty"]:
            labels.add("pty")
            colored = _pty_colored(proj, flags, env)
            if case["color_flag"]:
                want_col = case["color_flag"] == "--use-color"
                src = "flag"
            elif case["color_conf"] is not None:
                want_col = not case["color_conf"]
                src = "config"
            else:
                want_col = not case["color_env"]
                src = "env/default"
            if colored is not None and colored != want_col:
                viols.append(Violation({"kind": "colour-precedence", "source": src},
                                       f"colour expected {want_col} from {src} (flag {case['color_flag']}, config no_color="
                                       f"{case['color_conf']}, NO_COLOR={case['color_env']}), output coloured: {colored}"))
    return CaseResult(viols, True, sorted(labels))


def _pty_colored(proj, flags, env):
    """Run `gwf status` in a real sub-process with stdout on a pseudo-terminal."""
    import pty
    import select
    import subprocess

    sock = proj.serve()
    e = dict(os.environ)
    e["PATH"] = project.bindir() + os.pathsep + e.get("PATH", "")
    e["PYTHONPATH"] = os.environ.get("GWF_VERIF_SRC", "/repo/src")
    e["GWF_SIM_SOCK"] = sock
    e.pop("NO_COLOR", None)
    e.update(env)
    e["TERM"] = "xterm"
    master, slave = pty.openpty()
    p = subprocess.Popen([project.PY, "-c", "from gwf.cli import main; main()", *flags, "status"], cwd=proj.dir,
                         env=e, stdin=subprocess.DEVNULL, stdout=slave, stderr=subprocess.DEVNULL, close_fds=True)
    os.close(slave)
    buf = b""
    while True:
        rl, _, _ = select.select([master], [], [], 30)
        if not rl:
            break
        try:
            c = os.read(master, 65536)
        except OSError:
            break
        if not c:
            break
        buf += c
    os.close(master)
    try:
        p.wait(30)
    except subprocess.TimeoutExpired:
        p.kill()
        return None
    if p.returncode != 0 or not buf.strip():
        return None
    return b"\x1b[" in buf


def run_ns(case):
    viols, labels = [], {"ns", "backend-" + case["backend"]}
    b = case["backend"]
    cfg = {"backend": b}
    if case["accounting"] is not None:
        cfg["backend.slurm.accounting_enabled"] = case["accounting"]
    if case["log_mode"] is not None:
        cfg["backend.slurm.log_mode"] = case["log_mode"]
    for k in case["foreign"]:
        if not k.startswith(f"backend.{b}."):  # unknown keys of the selected namespace are out of scope
            cfg[k] = {"old.backend.slurm.log_mode": "none", "x.backend.slurm.accounting_enabled": False}.get(k, "zz")
    with project.Project(DESC, backend=b, invoke=case.get("invoke")) as proj:
        proj.write_config(cfg, via_cli=case.get("config_via") == "cli")
        r = proj.gwf(["run"])
        if r.code != 0 or r.crashed:
            viols.append(Violation({"kind": "foreign-namespace-reached-backend" if case["foreign"] else "run-failed",
                                    "exc": type(r.exc).__name__ if r.exc else None},
                                   f"config {cfg}: " + r.brief()))
            return CaseResult(viols, True, sorted(labels))
        r2 = proj.gwf(["status"])
        if r2.code != 0 or r2.crashed:
            viols.append(Violation({"kind": "status-failed"}, r2.brief()))
        used = _which_backend(proj.sim.log)
        if used != {b}:
            viols.append(Violation({"kind": "backend-config"}, f"backend {b} configured, commands of {sorted(used)} run"))
        if b == "slurm":
            acct = case["accounting"] is not False
            called = any(e["cmd"] == "sacct" for e in proj.sim.log)
            if called != acct:
                viols.append(Violation({"kind": "accounting-switch", "enabled": acct},
                                       f"accounting_enabled={case['accounting']}: sacct called: {called}"))
            mode = case["log_mode"] or "full"
            for j in proj.sim.submissions():
                d = j.directives
                out, err = d.get("--output"), d.get("--error")
                logs = proj.path(".gwf/logs")
                if mode == "full":
                    ok = out == os.path.join(logs, j.name + ".stdout") and err == os.path.join(logs, j.name + ".stderr")
                elif mode == "merged":
                    ok = out == os.path.join(logs, j.name + ".stdout") and err is None
                else:
                    ok = out == "/dev/null" and err is None
                if not ok:
                    viols.append(Violation({"kind": "log-mode", "mode": mode},
                                           f"log_mode={mode}: job {j.name} has --output={out} --error={err}"))
        else:
            # settings of the slurm namespace must not influence another backend
            if any(e["cmd"] in ("sacct", "squeue", "sbatch") for e in proj.sim.log):
                viols.append(Violation({"kind": "slurm-commands-on-other-backend"}, b))
    return CaseResult(viols, True, sorted(labels))


def run_case(case):
    return {"seq": run_seq, "prec": run_prec, "ns": run_ns}[case["kind"]](case)
