"""C02  Submission plan: stale cone only, once each, deps first, exact prerequisites."""

import itertools

from hypothesis import strategies as st

from vlib import api, gen, hist, model, project
from vlib.runner import CaseResult, Violation

ID = "C02"
LEVEL = "exploration"
TECHNIQUE = ("Hypothesis-generated DAG x file state x backend-state vector x name patterns through the real CLI "
             "against simulated Slurm/SGE/LSF, plus exhaustive 6^n backend vectors on fixed small shapes at API level; "
             "reference plan model over the observed submission log")
RULE = ("(a) exhaustive: 6 fixed shapes (chain, diamond, fork, join, two components, shared dependency; 3-4 targets) x "
        "every backend vector over {unknown,submitted,running,completed,failed,cancelled}^n x 3 file states, observed as "
        "the backend.submit(target, dependencies) call sequence of submit_workflow; (b) generated: well-formed workflows "
        "of 1-6 (thorough 9) targets, ladder mtimes, a drawn backend vector reached through a real first `gwf run` whose "
        "jobs are then forced into the drawn states, drawn name patterns (none/exact/globs/no match), backend "
        "slurm|sge|lsf; observed as the sbatch/qsub/bsub invocations the simulated scheduler received. Oracle "
        "model.plan: multiset of submitted names equals the model's (once each, nothing outside the cone, never a "
        "pending/running one); the ids named as prerequisites are exactly the latest job ids of the model's incomplete "
        "direct dependencies; every prerequisite submitted in the same run precedes its dependent. Non-trivial: the "
        "vector holds a failed/cancelled/pending/running target and the cone has a target with >=2 direct dependencies. "
        ""
        "CLI tier also: up to two commands that only look (status, dry-run, status <name>, info) between the "
        "earlier history and the run that is checked; PathLike spellings; bracket-only name patterns; "
        "invocation styles of project.Project. "
        "Distinct = SHA-1 of canonical case JSON.")
ASSUMPTIONS = [
    "simulated schedulers implement the documented CLI contract of sbatch/qsub/bsub (vlib/simsched.py); job states are forced directly for pre-population",
    "SGE has no accounting: finished SGE jobs are unknown to gwf by design, the model collapses them to 'unknown'",
    "bounds: <=9 targets, <=12 files",
]
BUDGET = {
    "quick": {"examples": 600, "wall_s": 100, "shards": 4},
    "thorough": {"examples": 8000, "wall_s": 1500, "shards": 16},
}

SHAPES = {
    "chain": [("A", [], ["a"]), ("B", ["a"], ["b"]), ("C", ["b"], ["c"])],
    "diamond": [("A", [], ["a"]), ("B", ["a"], ["b"]), ("C", ["a"], ["c"]), ("D", ["b", "c"], ["d"])],
    "fork": [("A", ["s"], ["a"]), ("B", ["a"], ["b"]), ("C", ["a"], ["c"])],
    "join": [("A", [], ["a"]), ("B", [], ["b"]), ("C", ["a", "b"], ["c"])],
    "two": [("A", [], ["a"]), ("B", ["a"], ["b"]), ("X", [], ["x"]), ("Y", ["x"], [])],
    "shared": [("A", ["s"], ["a1", "a2"]), ("B", ["a1"], ["b"]), ("C", ["a2", "b"], ["c"])],
}
FSTATES = ("fresh", "done", "one-stale")


def shape_desc(shape, fstate):
    ts, files = [], {"s": 1}
    for i, (n, ins, outs) in enumerate(SHAPES[shape]):
        ts.append({"name": n, "inputs": ins, "outputs": outs, "spec": f"echo {n}\n", "wd": None})
        for o in outs:
            files[o] = None if fstate == "fresh" else 2 + i
    if fstate == "one-stale":
        first_out = SHAPES[shape][0][2][0]
        files[first_out] = 50  # newer than everything downstream
    return {"targets": ts, "files": files}


def enumerate_cases(tier):
    for shape, fstate in itertools.product(SHAPES, FSTATES):
        n = len(SHAPES[shape])
        for vec in itertools.product(hist.VEC_STATES, repeat=n):
            yield {"kind": "api", "shape": shape, "fstate": fstate, "vec": list(vec)}


@st.composite
def _cli_case(draw, tier):
    big = tier == "thorough"
    desc = draw(gen.wellformed(max_targets=9 if big else 6, max_files=12 if big else 8, ticks=4, min_targets=2,
                               shapes=(0, 2, 4, 5), spellings=(0, 1, 4, 5, 7)))
    names = [t["name"] for t in desc["targets"]]
    vec = {n: draw(st.sampled_from(hist.VEC_STATES)) for n in names}
    pats = draw(st.one_of(st.just([]), gen.patterns(names)))
    return {"kind": "cli", "desc": desc, "invoke": draw(gen.invoke()), "backend": draw(st.sampled_from(["slurm", "slurm", "sge", "lsf"])),
            "vector": vec, "patterns": pats,
            # commands that only look, run between the earlier history and the run that is checked
            "looks": draw(st.lists(st.sampled_from(["status", "dry", "status-one", "info"]), max_size=2))}


def strategy(tier):
    return _cli_case(tier)


def _local_extra():
    from vlib import realpool

    return [{"name": "local_real", "strategy": lambda tier: realpool.real_case(5 if tier == "quick" else 8),
             "examples": {"quick": 3, "thorough": 48}, "wall_s": 240}]


EXTRA_STRATEGIES = _local_extra()
CASE_TIMEOUT_S = 200


def run_local(case):
    """Local backend, real worker pool: a running target is not submitted again by a later invocation."""
    from vlib import realpool

    viols, labels, info = realpool.run_real(case)
    mine = [Violation(dict(sig, backend="local"), msg) for p, sig, msg in viols if p == "C02"]
    return CaseResult(mine, bool(case.get("second_wave")), sorted(set(labels) | {"backend-local", "real-processes"}))


def _labels(R, vec, requested):
    labels = set()
    cone = R.cone(requested)
    if any(vec.get(n) in ("failed", "cancelled", "submitted", "running") for n in cone):
        labels.add("mixed-vector")
    if any(len(R.deps[n]) >= 2 for n in cone):
        labels.add("multi-dep-in-cone")
    if any(vec.get(d) in ("failed", "cancelled") for n in cone for d in R.deps[n]):
        labels.add("failed-dependency-resubmitted")
    return labels


def run_api(case):
    from gwf.scheduling import submit_workflow

    desc = shape_desc(case["shape"], case["fstate"])
    R = model.Resolved(desc)
    names = [t.name for t in R.targets]
    vec = dict(zip(names, case["vec"]))
    want_status, subs = R.plan(R.endpoints(), vec)
    graph, fs = api.build_graph(desc)
    be = api.MemBackend(vec)
    viols = []
    try:
        submit_workflow(graph.endpoints(), graph, fs, api.MemHashes({}, False), be)
    except Exception as exc:  # noqa: BLE001
        return CaseResult([Violation({"kind": "exception", "type": type(exc).__name__}, str(exc))], False, ["api"])
    viols += compare_plan(subs, [(n, set(d)) for n, d in be.calls], R)
    labels = _labels(R, vec, R.endpoints()) | {"api"}
    return CaseResult(viols, {"mixed-vector", "multi-dep-in-cone"} <= labels, sorted(labels))


def compare_plan(want, got, R):
    """want/got: lists of (name, set(prereq names)) in submission order."""
    viols = []
    wn = sorted(n for n, _ in want)
    gn = sorted(n for n, _ in got)
    if wn != gn:
        dup = sorted({n for n in gn if gn.count(n) > 1})
        extra = sorted(set(gn) - set(wn))
        miss = sorted(set(wn) - set(gn))
        kind = "double-submission" if dup else "extra-submission" if extra else "missing-submission"
        viols.append(Violation({"kind": kind}, f"submitted {gn}, plan says {wn} (twice: {dup}, extra: {extra}, missing: {miss})"))
        return viols
    wmap = dict(want)
    pos = {n: i for i, (n, _) in enumerate(got)}
    for n, pre in got:
        if pre != wmap[n]:
            viols.append(Violation({"kind": "wrong-prerequisites"},
                                   f"{n} submitted with prerequisites {sorted(pre)}, incomplete direct dependencies are {sorted(wmap[n])}"))
        for d in wmap[n]:
            if d in pos and pos[d] > pos[n]:
                viols.append(Violation({"kind": "dependent-before-dependency"},
                                       f"{n} was submitted before its prerequisite {d}"))
    return viols


def run_cli(case):
    desc, flavour, vec, pats = case["desc"], case["backend"], case["vector"], case["patterns"]
    R = model.Resolved(desc)
    names = [t.name for t in R.targets]
    eff = {n: hist.visible_state(flavour, vec.get(n, "unknown")) for n in names}
    requested = model.match_names(names, pats) if pats else R.endpoints()
    want_status, subs = R.plan(requested, eff)
    viols = []
    with project.Project(desc, backend=flavour, invoke=case.get("invoke")) as proj:
        sources = {p: (t if t is not None else 1) for p, t in desc["files"].items() if p not in R.producers}
        proj.set_files(sources)
        hist.prepopulate(proj, R, vec)
        proj.set_files({p: desc["files"].get(p) for p in R.producers})
        for look in case.get("looks") or []:
            args = {"status": ["status"], "dry": ["run", "--dry-run"], "status-one": ["status", names[0]], "info": ["info"]}[look]
            rl = proj.gwf(args)
            if rl.code != 0 or rl.crashed:
                viols.append(Violation({"kind": "look-failed", "cmd": look}, rl.brief()))
        before = len(proj.sim.submissions())
        nlog = len(proj.sim.log)
        r = proj.gwf(["run", *pats])
        if r.code != 0 or r.crashed:
            viols.append(Violation({"kind": "run-failed", "code": r.code}, r.brief()))
            return CaseResult(viols, False, ["cli", "run-failed"])
        new = proj.sim.submissions()[before:]
        got = []
        for j in new:
            ids, problems = hist.dep_ids(flavour, j)
            for p in problems:
                viols.append(Violation({"kind": "dependency-syntax", "backend": flavour}, f"{j.name}: {p}"))
            pre = set()
            for i in ids:
                dj = proj.sim.jobs.get(i)
                if dj is None:
                    viols.append(Violation({"kind": "unknown-prerequisite-id", "backend": flavour},
                                           f"{j.name} names prerequisite id {i!r}, which the scheduler never issued"))
                    continue
                latest = max((x for x in proj.sim.submissions() if x.name == dj.name and x.order < j.order),
                             key=lambda x: x.order)
                if latest.id != dj.id:
                    viols.append(Violation({"kind": "stale-prerequisite-id", "backend": flavour},
                                           f"{j.name} waits for job {dj.id} of {dj.name}, but its latest job is {latest.id}"))
                pre.add(dj.name)
            if len(ids) != len(set(ids)):
                viols.append(Violation({"kind": "duplicate-prerequisite-id"}, f"{j.name}: {ids}"))
            got.append((j.name, pre))
        if not any(v.sig["kind"].endswith("prerequisite-id") for v in viols):
            viols += compare_plan(subs, got, R)
        muts = [e for e in proj.sim.log[nlog:] if e["cmd"] in ("scancel", "qdel", "bkill")]
        if muts:
            viols.append(Violation({"kind": "run-cancelled-something"}, str(muts)))
    labels = _labels(R, eff, requested) | {"cli", "backend-" + flavour}
    if pats:
        labels.add("patterns" if requested else "patterns-match-nothing")
    if case.get("looks"):
        labels.add("looked-before-run")
    return CaseResult(viols, {"mixed-vector", "multi-dep-in-cone"} <= labels, sorted(labels))


def run_case(case):
    if case["kind"] == "real":
        return run_local(case)
    return run_api(case) if case["kind"] == "api" else run_cli(case)
