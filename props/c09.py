"""C09  Interrupted runs neither forget nor duplicate jobs the scheduler accepted."""

import json
import os
import signal

from hypothesis import strategies as st

from vlib import gen, hist, model, project, simsched
from vlib.runner import CaseResult, Violation

ID = "C09"
LEVEL = "fault_enumeration"
TECHNIQUE = ("systematic fault and crash injection into real `gwf run` processes: the k-th scheduler command fails (three "
             "failure kinds), queue/accounting queries fail, SIGKILL between two submissions, process exit inside the n-th "
             "write() of each state file (every prefix of the document); invariant oracle over follow-up invocations")
RULE = ("case = well-formed workflow (2-5 targets, everything stale) + backend slurm|sge|lsf (+ spec hashing) + one fault: "
        "submit command k fails with exit 1 / 'error:' on stderr / garbage (k over every position), the status query "
        "(squeue, sacct, qstat, bjobs) fails, SIGKILL of the gwf process when it is about to send submission k+1 (every k), "
        "or os._exit inside the n-th write() to a file under .gwf/ (n drawn over the whole range counted in a dry "
        "counting run; thorough: every n for a sample). The interrupted run is a real sub-process reaching the simulated "
        "scheduler through executables on PATH. Oracle: the follow-up `gwf status` and `gwf run` exit 0 (state files "
        "readable); no target whose accepted job is still pending gets a second job; the remaining stale targets are "
        "submitted with prerequisites naming the accepted jobs' ids; after the interrupted run a spec-hash record exists "
        "only for accepted targets. Non-trivial: the interruption falls after >=1 and before the last of >=3 submissions, "
        "or inside a state-file write. Local backend (`local_interrupt` tier): a real `gwf workers` pool behind a TCP "
        "proxy of the harness that records every enqueue (name, deps, answered id); at the k-th enqueue of the "
        "interrupted run the connection is dropped before the request reaches the pool, dropped after the pool answered "
        "(that one task is in doubt), or the gwf sub-process is SIGKILLed; every task sleeps 60 s, so all accepted tasks "
        "are in flight at the follow-up; same oracle on the proxy's record. Distinct = SHA-1 of canonical case JSON.")
ASSUMPTIONS = [
    "crash model: process death (SIGKILL / _exit) at submission boundaries and at every write() of a state file; power loss and un-synced page cache are out of scope",
    "a kill 'between two submissions' is delivered when gwf is about to send the next submission, i.e. after it has received the previous reply",
    "simulated schedulers reached through thin client executables on PATH (unix socket to the harness)",
    "local pool: faults are injected on the connection between gwf and the pool (the pool itself stays up); a pool that dies is covered by the restart cases of C08/C17",
]
BUDGET = {
    "quick": {"examples": 36, "wall_s": 110, "shards": 4},
    "thorough": {"examples": 800, "wall_s": 1500, "shards": 16},
}
CASE_TIMEOUT_S = 240

SUBMIT = {"slurm": "sbatch", "sge": "qsub", "lsf": "bsub"}
QUERY = {"slurm": ["squeue", "sacct"], "sge": ["qstat"], "lsf": ["bjobs"]}

LAUNCHER = r'''
import builtins, os, sys
N = int(os.environ.get("GWF_CRASH_N", "0"))
COUNT_FILE = os.environ.get("GWF_CRASH_COUNT")
count = [0]
_open = builtins.open


class W:
    def __init__(self, f):
        self._f = f

    def write(self, data):
        count[0] += 1
        if N and count[0] == N:
            self._f.write(data[: max(0, len(data) // 2)])
            self._f.flush()
            os._exit(137)
        return self._f.write(data)

    def __getattr__(self, a):
        return getattr(self._f, a)

    def __enter__(self):
        return self

    def __exit__(self, *a):
        return self._f.__exit__(*a)

    def __iter__(self):
        return iter(self._f)


def open2(path, mode="r", *a, **kw):
    f = _open(path, mode, *a, **kw)
    p = os.fspath(path) if not isinstance(path, int) else ""
    if isinstance(p, bytes):
        p = p.decode("utf-8", "replace")
    if any(c in mode for c in "wa+x") and ("/.gwf/" in p or os.path.basename(p).startswith(".gwfconf")) \
            and "/.gwf/logs/" not in p:
        return W(f)
    return f


builtins.open = open2
import io
io.open = open2


def _wrap_move(name):
    real = getattr(os, name)

    def move(src, dst, *a, **kw):
        p = os.fspath(dst)
        if isinstance(p, bytes):
            p = p.decode("utf-8", "replace")
        if ("/.gwf/" in p or os.path.basename(p).startswith(".gwfconf")) and "/.gwf/logs/" not in p:
            count[0] += 1
            if N and count[0] == N:
                os._exit(137)  # killed just before the new file is moved into place
            r = real(src, dst, *a, **kw)
            count[0] += 1
            if N and count[0] == N:
                os._exit(137)  # killed right after the move, before anything else happens (flush, close)
            return r
        return real(src, dst, *a, **kw)

    setattr(os, name, move)


_wrap_move("replace")
_wrap_move("rename")
import atexit


def _report():
    if COUNT_FILE:
        with _open(COUNT_FILE, "w") as f:
            f.write(str(count[0]))


atexit.register(_report)
from gwf.cli import main
main()
'''


@st.composite
def _case(draw, tier):
    desc = draw(gen.wellformed(max_targets=5, max_files=8, ticks=2, min_targets=2, shapes=(0, 2), spellings=(0,)))
    for p in list(desc["files"]):
        pass
    b = draw(st.sampled_from(["slurm", "slurm", "sge", "lsf"]))
    ftype = draw(st.sampled_from(["cmdfail", "cmdfail", "queryfail", "kill_between", "kill_between", "kill_write", "kill_write"]
                                 + (["blockscript"] if b == "lsf" else [])))
    fault = {"type": ftype}
    if ftype == "cmdfail":
        fault["k"] = draw(st.integers(1, 5))
        fault["kind"] = draw(st.sampled_from(["exit1", "stderr-error", "garbage", "exit1-plain", "killed", "busy"]))
        # the refusal persists for retries of the same request
        fault["sticky"] = draw(st.booleans())
    elif ftype == "queryfail":
        fault["cmd"] = draw(st.sampled_from(QUERY[b]))
        fault["kind"] = draw(st.sampled_from(["exit1", "stderr-error", "garbage0", "garbage0", "partial-error"]))
        fault["after_first"] = draw(st.booleans())
    elif ftype in ("kill_between", "blockscript"):
        fault["k"] = draw(st.integers(1, 4))
    else:
        fault["frac"] = draw(st.integers(0, 1000))  # position in [1..M] as a fraction
    return {"desc": desc, "invoke": draw(gen.invoke()), "backend": b, "hashing": draw(st.booleans()), "fault": fault,
            "second_round": draw(st.booleans()), "earlier_purged": draw(st.sampled_from([False, False, True])),
            "first_wave": draw(st.sampled_from([1, 2, 3])), "acct": draw(st.sampled_from([True, True, False])),
            "start_some": draw(st.booleans()),
            # Slurm: the accounting database has not caught up with the jobs accepted a moment ago (only the live
            # queue knows them when the next invocation asks)
            "acct_lag": draw(st.booleans())}


def strategy(tier):
    return _case(tier)


FIXED = {"targets": [{"name": "A", "inputs": ["s"], "outputs": ["a"], "spec": "echo A\n", "wd": None},
                     {"name": "B", "inputs": ["a"], "outputs": ["b"], "spec": "echo B\n", "wd": None},
                     {"name": "C", "inputs": ["a", "b"], "outputs": ["c"], "spec": "echo C\n", "wd": None}],
         "files": {"s": 1, "a": None, "b": None, "c": None}}


def enumerate_cases(tier):
    """Every write() of every state file of one fixed run, and every kill position between submissions."""
    combos = [("slurm", True)] if tier == "quick" else [("slurm", True), ("slurm", False), ("sge", True), ("lsf", True)]
    top = 90 if tier == "quick" else 120
    for b, hashing in combos:
        for n in range(1, top + 1):
            yield {"desc": FIXED, "backend": b, "hashing": hashing, "fault": {"type": "kill_write", "n": n},
                   "second_round": False, "acct_lag": n % 3 == 0}
        for k in (1, 2):
            for lag in (False, True):
                yield {"desc": FIXED, "backend": b, "hashing": hashing, "fault": {"type": "kill_between", "k": k},
                       "second_round": False, "acct_lag": lag}
        for k in (1, 2, 3):
            for kind in ("exit1", "stderr-error", "garbage"):
                yield {"desc": FIXED, "backend": b, "hashing": hashing, "fault": {"type": "cmdfail", "k": k, "kind": kind},
                       "second_round": False}
    for k in (1, 2, 3):
        yield {"desc": FIXED, "backend": "lsf", "hashing": k == 2, "fault": {"type": "blockscript", "k": k}, "second_round": False}
    # a status query that fails or answers nonsense while jobs of an earlier invocation are in flight
    for b in ("slurm", "sge", "lsf"):
        for cmd in QUERY[b]:
            for kind in ("exit1", "stderr-error", "garbage0", "partial-error"):
                for acct in ((True, False) if b == "slurm" else (True,)):
                    yield {"desc": FIXED, "backend": b, "hashing": False, "fault": {"type": "queryfail", "cmd": cmd, "kind": kind},
                           "second_round": True, "earlier_purged": False, "acct": acct, "first_wave": 2}
    # an interruption in a project that already has history: jobs of an earlier invocation finished and were purged
    for b in ("slurm", "sge", "lsf"):
        for k in (1, 2):
            yield {"desc": FIXED, "backend": b, "hashing": False, "fault": {"type": "cmdfail", "k": k, "kind": "exit1"},
                   "second_round": True, "earlier_purged": True}
            yield {"desc": FIXED, "backend": b, "hashing": False, "fault": {"type": "kill_between", "k": k},
                   "second_round": True, "earlier_purged": True}
            yield {"desc": FIXED, "backend": b, "hashing": False, "fault": {"type": "cmdfail", "k": k + 1, "kind": "exit1"},
                   "second_round": False, "start_some": True}


def _local_extra():
    from vlib import localfault

    return [{"name": "local_interrupt", "strategy": lambda tier: localfault.case(),
             "examples": {"quick": 6, "thorough": 96}, "wall_s": 300}]


EXTRA_STRATEGIES = _local_extra()


def run_local(case):
    """Local worker pool: the connection breaks at the k-th enqueue, or gwf is killed there."""
    from vlib import localfault

    viols, labels, nt = localfault.run(case)
    return CaseResult([Violation(sig, msg) for sig, msg in viols], nt, sorted(labels))


def run_case(case):
    if case.get("kind") == "local-interrupt":
        return run_local(case)
    desc, b = case["desc"], case["backend"]
    fault = case["fault"]
    cfg = {"use_spec_hashes": True} if case["hashing"] else {}
    if b == "slurm" and case.get("acct") is False:
        cfg["backend.slurm.accounting_enabled"] = False  # only the live queue knows the jobs
    viols, labels = [], {"backend-" + b, "fault-" + fault["type"]}
    sub = SUBMIT[b]
    with project.Project(desc, backend=b, config=cfg, invoke=case.get("invoke")) as proj:
        R = model.Resolved(desc)
        names = [t.name for t in R.targets]
        # everything stale: sources exist, outputs missing
        proj.set_files({p: (None if p in R.producers else 1) for p in desc["files"]})
        sim = proj.sim
        S = hist.Session(proj, desc, hashing=case["hashing"], accounting=not (b == "slurm" and case.get("acct") is False))
        if case["second_round"]:
            # an earlier, clean invocation: part of the workflow is already in flight
            r0, new0 = S.run(sorted(names)[: case.get("first_wave", 1)])
            if r0.code != 0:
                raise hist.SubjectFailure("setup run failed: " + r0.brief())
            labels.add("earlier-invocation")
            if case.get("earlier_purged"):
                # those jobs ran to completion long ago; the scheduler no longer knows them
                for j in list(sim.submissions()):
                    if j.state == simsched.PENDING and sim.deps_released(j):
                        sim.start(j.id)
                for _ in range(20):
                    for j in sim.running():
                        S.complete(j)
                    for j in sim.startable():
                        sim.start(j.id)
                for j in sim.submissions():
                    if j.ended:
                        sim.age_out(j.id, queue=True, acct=True)
                labels.add("earlier-jobs-purged")
        _, subs = S.plan()
        n_planned = len(subs)
        before = len(sim.submissions())
        base = sim.counts.get(sub, 0)
        ftype = fault["type"]
        interrupted = True
        if ftype == "cmdfail":
            k = min(fault["k"], max(1, n_planned))
            sim.faults = [simsched.Fault(sub, base + k, fault["kind"], sticky=bool(fault.get("sticky")))]
            r = proj.gwf_sub(["run"])
            sim.faults = []
            pos = k - 1
            if n_planned == 0:
                interrupted = False
            elif r.code == 0:
                viols.append(Violation({"kind": "failed-submission-exit-0", "backend": b, "fault": fault["kind"]},
                                       f"submission {k} failed ({fault['kind']}) but gwf run exited 0: {r.brief()}"))
        elif ftype == "queryfail":
            sim.faults = [simsched.Fault(fault["cmd"], sim.counts.get(fault["cmd"], 0) + 1, fault["kind"])]
            r = proj.gwf_sub(["run"])
            hit = any(e["fault"] for e in sim.log)
            sim.faults = []
            pos = 0
            if not hit:
                interrupted = False
        elif ftype == "kill_between":
            k = min(fault["k"], max(1, n_planned - 1)) if n_planned >= 2 else 0
            pos = k
            if k:
                def before_cmd(cmd, n, argv, _k=k):
                    if cmd == sub and n == base + _k + 1:
                        try:
                            os.kill(proj._caller_pid, signal.SIGKILL)
                        except (ProcessLookupError, TypeError):
                            pass
                        raise project.ProcessKilled()

                sim.before_cmd = before_cmd
                try:
                    r = proj.gwf_sub(["run"])
                finally:
                    sim.before_cmd = None
                # the killed submission command never reached the scheduler's job table
                if r.code != -signal.SIGKILL:
                    labels.add("kill-missed")
            else:
                r = proj.gwf_sub(["run"])
                interrupted = False
        elif ftype == "blockscript":
            # an exception in the middle of the run that is not a scheduler failure: the LSF backend keeps a copy
            # of every job script next to the logs, and the place of the k-th one is taken by a directory
            k = min(fault["k"], max(1, n_planned))
            pos = k - 1
            if b == "lsf" and n_planned:
                victim = [n_ for n_, _ in subs][k - 1]
                blocked = proj.path(f".gwf/logs/{victim}.sh")
                if os.path.isfile(blocked):
                    os.remove(blocked)  # the copy an earlier invocation left there
                os.makedirs(blocked, exist_ok=True)
                r = proj.gwf_sub(["run"])
                os.rmdir(proj.path(f".gwf/logs/{victim}.sh"))
                if r.code == 0:
                    interrupted = False
            else:
                r = proj.gwf_sub(["run"])
                interrupted = False
        else:  # kill_write
            count_file = proj.path("crash_count.txt")
            # counting run in a scratch copy of the situation is not possible (submissions are effects), so count
            # on a dry status: the number of write() calls of `status` bounds from below; use the run itself twice:
            r_count = proj.gwf_sub(["status"], launcher=LAUNCHER, extra_env={"GWF_CRASH_N": "0", "GWF_CRASH_COUNT": count_file})
            try:
                m_status = int(open(count_file).read())
            except (OSError, ValueError):
                m_status = 0
            # a run writes at least as many chunks as status (same files, more entries); scale the fraction generously
            est = max(1, m_status + 4 * max(1, n_planned) * (2 if case["hashing"] else 1))
            n = fault["n"] if "n" in fault else 1 + (fault["frac"] * est) // 1001
            r = proj.gwf_sub(["run"], launcher=LAUNCHER, extra_env={"GWF_CRASH_N": str(n), "GWF_CRASH_COUNT": count_file})
            pos = n_planned
            labels.add("write-crash-hit" if r.code == 137 else "write-crash-beyond-end")
            if r.code != 137:
                interrupted = False
            if os.path.exists(count_file):
                os.remove(count_file)
        accepted = sim.submissions()[before:]
        acc_names = [j.name for j in accepted]
        if len(set(acc_names)) != len(acc_names):
            viols.append(Violation({"kind": "duplicate-in-interrupted-run"}, str(acc_names)))
        # nor does the disturbed run itself give a second job to a target whose earlier job is still in flight
        earlier_live = {j.name: j for j in sim.submissions()[:before] if not j.ended}
        for j in accepted:
            if j.name in earlier_live:
                viols.append(Violation({"kind": "accepted-job-forgotten", "fault": ftype, "backend": b, "when": "disturbed-run"},
                                       f"during the run disturbed by {fault}: {j.name} got a second job {j.id} although its job "
                                       f"{earlier_live[j.name].id} from the earlier invocation is still pending or running"))
                break
        # spec hashes only for accepted targets (earlier invocation's records stay)
        if case["hashing"]:
            try:
                rec = proj.state_json("spec-hashes.json")
            except ValueError:
                rec = None
            if rec is not None:
                allowed = set(acc_names) | set(S.records)
                extra = sorted(set(rec) - allowed)
                if extra:
                    viols.append(Violation({"kind": "hash-recorded-without-acceptance", "fault": ftype},
                                           f"records for {extra}, accepted only {acc_names}"))
        # meanwhile the scheduler may have started some of the accepted jobs
        if case.get("start_some"):
            for j in sim.startable()[: 1 + len(accepted) // 2]:
                sim.start(j.id)
                labels.add("accepted-job-running")
        if case.get("acct_lag") and b == "slurm":
            for j in accepted:
                if not j.ended:
                    j.in_acct = False
            labels.add("accounting-lags-behind")
        # ---- follow-up invocations, fresh processes
        r1 = proj.gwf(["status"])
        if r1.code != 0 or r1.crashed:
            viols.append(Violation({"kind": "next-invocation-fails", "cmd": "status", "fault": ftype,
                                    "exc": type(r1.exc).__name__ if r1.exc else None},
                                   f"after {fault}: " + r1.brief()))
        vec = S.vector()
        R2 = S.refresh()
        # hashing may legitimately make accepted-but-unrecorded targets stale; they are in flight, so irrelevant
        want_status, want_subs = R2.plan(R2.endpoints(), vec, False, None)
        n_before = len(sim.submissions())
        r2 = proj.gwf(["run"])
        new = sim.submissions()[n_before:]
        if r2.code != 0 or r2.crashed:
            viols.append(Violation({"kind": "next-invocation-fails", "cmd": "run", "fault": ftype,
                                    "exc": type(r2.exc).__name__ if r2.exc else None},
                                   f"after {fault}: " + r2.brief()))
        else:
            inflight = {j.name: j for j in sim.submissions()[:n_before] if not j.ended}
            if ftype == "kill_write" and accepted:
                # the process died *inside* the write that was recording the most recently accepted job:
                # that one job is in doubt (no implementation can have persisted it); every earlier one must be known
                in_doubt = accepted[-1].name
                if inflight.get(in_doubt) is accepted[-1]:
                    del inflight[in_doubt]
                    labels.add("last-job-in-doubt")
            for j in new:
                if j.name in inflight:
                    viols.append(Violation({"kind": "accepted-job-forgotten", "fault": ftype, "backend": b},
                                           f"after {fault}: {j.name} was submitted again (job {j.id}) although its job "
                                           f"{inflight[j.name].id} was accepted earlier and is still pending"))
            if not any(v.sig["kind"] == "accepted-job-forgotten" for v in viols):
                got = []
                for j in new:
                    ids, problems = hist.dep_ids(b, j)
                    pre = set()
                    for i in ids:
                        dj = sim.jobs.get(i)
                        if dj is None:
                            viols.append(Violation({"kind": "unknown-prerequisite-id", "fault": ftype}, f"{j.name}: {i!r}"))
                        else:
                            pre.add(dj.name)
                            latest = max((x for x in sim.submissions() if x.name == dj.name and x.order < j.order), key=lambda x: x.order)
                            if latest.id != dj.id:
                                viols.append(Violation({"kind": "stale-prerequisite-id", "fault": ftype}, f"{j.name} waits for {i}, latest is {latest.id}"))
                    got.append((j.name, pre))
                from props.c02 import compare_plan

                if "last-job-in-doubt" in labels and any(n == accepted[-1].name for n, _ in got):
                    # it was re-submitted: then the model must see it as not in flight
                    vec2 = dict(vec)
                    vec2[accepted[-1].name] = "unknown"
                    _, want_subs = R2.plan(R2.endpoints(), vec2, False, None)
                for v in compare_plan(want_subs, got, R2):
                    v.sig["fault"] = ftype
                    viols.append(v)
    nt = interrupted and ((ftype in ("cmdfail", "kill_between") and n_planned >= 3 and 1 <= pos < n_planned)
                          or (ftype == "kill_write" and "write-crash-hit" in labels))
    if not interrupted:
        labels.add("fault-not-reached")
    return CaseResult(viols, nt, sorted(labels))
