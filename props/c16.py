"""C16  touch makes the selected cone look completed without changing file contents."""

import os

from hypothesis import strategies as st

from vlib import gen, hist, model, project
from vlib.runner import CaseResult, Violation

ID = "C16"
LEVEL = "exploration"
TECHNIQUE = ("Hypothesis-generated DAGs, file states (outputs older than inputs, missing intermediates, future-dated "
             "sources), selections, backend vectors and spec-hash states through the real CLI; harness-owned clock "
             "(file-system events re-stamped with strictly increasing logical mtimes in event order); reference model "
             "for the following status; content hashes")
RULE = ("case = well-formed workflow (2-6, thorough 10 targets; diamonds, shared dependencies, several endpoints) + file "
        "ticks (any order, outputs missing) + name patterns or none + backend vector + spec hashing with per-target "
        "same/changed/no-record + optional source dated in the future. `gwf touch` runs with os.utime/os.open wrapped; "
        "every file it created or touched is re-stamped with strictly increasing ticks in event order (one legal outcome "
        "of a real clock, and the adversarial one). Oracle: contents of pre-existing files unchanged; missing cone "
        "outputs now exist and are empty; nothing outside the cone's outputs changed or appeared; the following `gwf "
        "status` equals model.plan on the new file state and, when the cone holds no live/failed/cancelled job and no "
        "future-dated source, every cone target with outputs is completed; spec records outside the cone unchanged. "
        "Non-trivial: cone depth >=2 with a target having >=2 direct dependencies or a shared dependency, and some "
        "output older than its input beforehand. "
        "Also: up to two outputs are symbolic links into a data store (existing or dangling; the link itself "
        "dated long ago); invocation styles of project.Project. "
        "Distinct = SHA-1 of canonical case JSON.")
ASSUMPTIONS = [
    "parent directories of outputs exist (DESIGN 6.3)",
    "logical clock: re-stamping in event order is one legal behaviour of the real clock; if a refactor bypasses os.utime/os.open the harness falls back to the observed mtime_ns order",
    "in-process CLI via click CliRunner; simulated Slurm for the backend vector",
]
BUDGET = {
    "quick": {"examples": 400, "wall_s": 100, "shards": 4},
    "thorough": {"examples": 10000, "wall_s": 1500, "shards": 16},
}

FUTURE = 10**7  # tick far beyond anything the harness hands out (year > 2100)


@st.composite
def _case(draw, tier):
    big = tier == "thorough"
    desc = draw(gen.wellformed(wf_wds=(None, None, "wdir"), wds=(None, None, None, "w1"), max_targets=10 if big else 6, max_files=14 if big else 9, ticks=5, min_targets=2,
                               shapes=(0, 2, 4, 5, 7, 3), spellings=(0, 1, 2, 4)))
    names = [t["name"] for t in desc["targets"]]
    vec = {n: draw(st.sampled_from(["unknown"] * 5 + ["completed"] * 3 + ["submitted", "running", "failed", "cancelled"]))
           for n in names}
    hashing = draw(st.booleans())
    hstate = {n: draw(st.sampled_from(["same", "changed", "norecord"])) for n in names} if hashing else {}
    return {"desc": desc, "invoke": draw(gen.invoke()), "backend": "slurm", "vector": vec, "hashing": hashing, "hstate": hstate,
            "patterns": draw(st.one_of(st.just([]), st.just([]), gen.patterns(names))),
            "future_source": draw(st.sampled_from([False, False, False, True])),
            # a coarse file-system clock: consecutive touch events may get the same timestamp
            "coarse": draw(st.lists(st.booleans(), max_size=12)),
            # outputs that are symbolic links into a data store (existing ones keep content and time; missing ones
            # become links to a file that does not exist yet): the link itself is dated long ago
            "link_outputs": draw(st.lists(st.integers(0, 13), max_size=2))}


def strategy(tier):
    return _case(tier)


def run_case(case):
    from props.c05 import setup_project

    desc = case["desc"]
    hashing = case["hashing"]
    cfg = {"use_spec_hashes": True} if hashing else {}
    viols, labels = [], set()
    with project.Project(desc, backend="slurm", config=cfg, invoke=case.get("invoke")) as proj:
        R = model.Resolved(desc)
        eff, records = setup_project(case, proj, R)
        R = model.Resolved(desc)
        names = [t.name for t in R.targets]
        sources = sorted(p for p in R.files if p not in R.producers)
        future = None
        if case["future_source"] and sources:
            future = sources[0]
            proj.stamp(future, FUTURE)
        outs_sorted = sorted(R.producers)
        for k in case.get("link_outputs") or []:
            p = outs_sorted[k % len(outs_sorted)] if outs_sorted else None
            if p is not None and not os.path.islink(proj.path(p)):
                proj.link_out(p, dangling=not os.path.exists(proj.path(p)))
                labels.add("output-is-a-symlink")
        pats = case["patterns"]
        selected = model.match_names(names, pats) if pats else R.endpoints()
        cone = R.cone(selected)
        cone_outputs = {p for n in cone for p in R.by_name[n].outset}

        files0 = dict(R.files)
        if future:
            files0[future] = FUTURE
        stale_before = any(
            files0.get(p) is not None and files0.get(q) is not None and files0[q] > files0[p]
            for n in cone for p in R.by_name[n].outset for q in R.by_name[n].inset)

        before = proj.snapshot()
        rec_before = proj.state_json("spec-hashes.json")
        log0 = len(proj.sim.log)
        r = proj.gwf(["touch", *pats], track_fs=True)
        if r.code != 0 or r.crashed:
            return CaseResult([Violation({"kind": "touch-failed", "exc": type(r.exc).__name__ if r.exc else None},
                                         r.brief())], False, ["touch-failed"])
        if len(proj.sim.log) != log0:
            viols.append(Violation({"kind": "touch-called-scheduler"}, str(proj.sim.log[log0:][:2])))
        after = proj.snapshot()
        # --- what changed on disk ------------------------------------------------
        for k, x, y in proj.snap_diff(before, after):
            if k.startswith(".gwf/") or k == ".gwfconf.json":
                continue
            if x is not None and x[0] == "dangling-link":
                x = None  # the file the link points to did not exist before
            if k not in cone_outputs:
                viols.append(Violation({"kind": "touched-outside-cone"},
                                       f"{k} is not an output of the selected cone {sorted(cone)} but changed: {x} -> {y}"))
            elif x is None:
                if y[1] != 0:
                    viols.append(Violation({"kind": "created-non-empty"}, f"{k} created with {y[1]} bytes"))
            elif y is None:
                viols.append(Violation({"kind": "touch-removed-file"}, k))
            elif x[2] != y[2] or x[1] != y[1]:
                viols.append(Violation({"kind": "content-changed"}, f"{k}: content changed by touch"))
        for p in cone_outputs:
            if p not in after:
                viols.append(Violation({"kind": "cone-output-missing-after-touch"}, p))
        # --- harness clock: re-stamp in event order -------------------------------
        order = []
        for kind, rel in r.fs_events:
            if rel in order:
                order.remove(rel)
            order.append(rel)
        # the times touch really left on disk (before the harness clock replaces them): files touched later are
        # not older than files touched earlier, whether they existed before or had to be created
        real = [(rel, after[rel][3]) for rel in order if rel in after and after[rel][0] == "file"]
        for (a, ta), (b_, tb) in zip(real, real[1:]):
            if tb < ta:
                viols.append(Violation({"kind": "touch-times-against-touch-order"},
                                       f"{b_} was touched after {a} but carries an older modification time "
                                       f"({tb} < {ta} ns): a target's output can end up older than its input"))
                break
        changed = [k for k, x, y in proj.snap_diff(before, after)
                   if not k.startswith(".gwf/") and k != ".gwfconf.json" and y is not None]
        if set(changed) - set(order):
            labels.add("clock-fallback")
            rest = sorted(set(changed) - set(order), key=lambda k: after[k][3])
            order = sorted(set(order) | set(rest), key=lambda k: after[k][3] if k in after else 0)
        coarse = list(case.get("coarse", []))
        first = True
        for rel in order:
            if rel in after and rel != future:
                same = (not first) and coarse and coarse.pop(0)
                if same:
                    labels.add("coarse-clock-tie")
                proj.stamp(rel, proj.tick if same else proj.next_tick())
                first = False
        # --- status afterwards ------------------------------------------------------
        newfiles = {p: proj.tick_of(p) for p in R.files}
        desc2 = dict(desc, files=newfiles)
        R2 = model.Resolved(desc2)
        rec2 = dict(records)
        if hashing:
            for n in cone:
                rec2[n] = R2.by_name[n].spec
        want, _ = R2.plan(names, eff, hashing, rec2)
        r2 = proj.gwf(["status"])
        table = r2.status_rows()
        if r2.code != 0 or r2.crashed:
            viols.append(Violation({"kind": "status-failed"}, r2.brief()))
        elif table != want:
            diff = {n: (table.get(n), want.get(n)) for n in names if table.get(n) != want.get(n)}
            viols.append(Violation({"kind": "status-after-touch-vs-model"}, f"(gwf, model): {diff}"))
        quiet = all(eff.get(n, "unknown") in ("unknown", "completed") for n in cone)
        cone_sources = {p for n in cone for p in R.by_name[n].inset if p not in R.producers}
        if quiet and (future is None or future not in cone_sources) and r2.code == 0:
            for n in sorted(cone):
                if R.by_name[n].outset and table.get(n) != "completed":
                    viols.append(Violation({"kind": "cone-not-completed-after-touch", "status": table.get(n)},
                                           f"{n} is {table.get(n)} after touch; event order {order}"))
        if hashing:
            rec_after = proj.state_json("spec-hashes.json")
            for n in names:
                if n not in cone and rec_after.get(n) != rec_before.get(n):
                    viols.append(Violation({"kind": "record-outside-cone-changed"}, n))
        elif proj.state_json("spec-hashes.json") != rec_before:
            viols.append(Violation({"kind": "records-while-disabled"}, "spec-hash file changed with hashing off"))
    depth2 = any(R.deps[n] for n in cone)
    joins = any(len(R.deps[n]) >= 2 for n in cone) or any(len(R.dependents[n] & cone) >= 2 for n in cone)
    if joins:
        labels.add("diamond-or-shared")
    if stale_before:
        labels.add("stale-before")
    if pats:
        labels.add("patterns")
    if future:
        labels.add("future-source")
    if hashing:
        labels.add("hashing")
    return CaseResult(viols, depth2 and joins and stale_before, sorted(labels))
