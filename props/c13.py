"""C13  Local pool: every task reaches the final state matching what happened to it."""

from vlib import poolprops
from vlib.runner import CaseResult

ID = "C13"
LEVEL = "exploration"
TECHNIQUE = ("Hypothesis-generated event and fault histories on the real Scheduler under a virtual clock; "
             "outcome model + stability invariant; real-process tier for logs and surviving children")
RULE = ("case = core count + history of submit/exit(rc)/cancel/advance-clock/start-failure/log-dir-removal "
        "events; after the harness ends every live process, runs out every timer and drains the loop, every task "
        "must be final and in the admissible set computed from what happened (exit 0 -> completed, non-zero/"
        "start failure/time-out/failed dependency -> failed-class, cancelled itself or via dependency -> cancelled); "
        "a final state never changes at a later quiescent point; at most one spawn per task; cancelling a final "
        "task changes nothing; logs equal the bytes the process wrote. Non-trivial: a cancel or time-out hit a "
        "running task, or a start/log failure occurred. "
        "Real tier also: dotted task names, the pool started from a sub-directory of the project, the logs "
        "directory removed before the run. "
        "Distinct = SHA-1 of canonical case JSON.")
ASSUMPTIONS = [
    "virtual tier: fake processes; 'eventually' means after all processes ended, all timers fired and the loop drained",
    "a log-directory failure admits any final state (the statement only requires that a final state is reached)",
    "bounds: <=4 cores, <=40 events",
]
BUDGET = {
    "quick": {"examples": 1500, "wall_s": 60, "shards": 4},
    "thorough": {"examples": 30000, "wall_s": 1500, "shards": 16},
}

EXTRA_STRATEGIES = poolprops.real_extra(8, 96)
CASE_TIMEOUT_S = 200


def strategy(tier):
    return poolprops.history(max_steps=25 if tier == "quick" else 40, big_payloads=True)


def run_case(case):
    viols, labels, info = poolprops.run(case, ID)
    nt = bool(info["cancel_running"] or info["timeouts"] or info["start_failures"] or info["log_failures"])
    return CaseResult(viols, nt, sorted(labels))
