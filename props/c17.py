"""C17  cancel hits exactly the selected targets' jobs; one failure stops nothing else."""

import re

from hypothesis import strategies as st

from vlib import gen, hist, model, project, simsched
from vlib.runner import CaseResult, Violation

ID = "C17"
LEVEL = "fault_enumeration"
TECHNIQUE = ("Hypothesis-generated job-state mixes (never submitted / pending / running / finished, older jobs of the same "
             "target) x selections x prompt answers, with a failing cancel command injected at every position; exact "
             "command-set oracle over the simulated scheduler's log and follow-up status/run")
RULE = ("case = well-formed workflow (2-7 targets) + backend slurm|sge|lsf + per-target job state (never submitted, "
        "pending, running, completed, failed, and optionally an older job of the same target still known to the "
        "scheduler) reached through real runs + name patterns or none with prompt answer y/n/empty or -f + an injected "
        "failure of the k-th cancel command (k enumerated over every position incl. none; kinds: non-zero exit, "
        "'error:' on stderr). Oracle: the cancel commands received are exactly one per selected tracked target, each "
        "naming that target's latest job id, nothing else; every target that cannot be cancelled (never submitted, "
        "finished, injected error) is named in the output and all later ones are still attempted; exit status 0; after "
        "the scheduler carried the cancellations out none of the successfully cancelled targets shows submitted/running "
        "and a following run may submit them; a declined prompt sends no command. Non-trivial: >=3 selected targets "
        "with a failure injected at a non-last position. Local backend, real processes: (i) random task DAGs with "
        "`gwf cancel <name>` at random times (a cancel that reached a running task stops it, nothing unselected is "
        "cancelled); (ii) 3-7 independent targets whose latest job is stale (accepted by a pool that was killed and "
        "restarted on the same or another port), live, finished or never submitted, then one `gwf cancel` of all or "
        "of a subset: exit 0, every selected live target's process is gone within 5 s and it no longer shows "
        "submitted/running, unselected live ones keep running, every selected stale/finished/never target is named "
        "in the output (non-trivial: a live and an uncancellable target selected together). "
        ""
        "Also: jobs stuck in a state gwf cannot classify (SGE Eqw, LSF UNKWN) must still be cancelled; fault "
        "kinds exit-without-'error:', killed command, and a scheduler that stays busy for every retry of the "
        "same request; invocation styles of project.Project. "
        "Distinct = SHA-1 of canonical case JSON.")
ASSUMPTIONS = [
    "scancel --verbose / qdel / bkill as simulated from their manuals (error text for unknown or finished jobs)",
    "fault positions enumerated over the sequence of cancel commands of one invocation",
]
BUDGET = {
    "quick": {"examples": 250, "wall_s": 100, "shards": 4},
    "thorough": {"examples": 6000, "wall_s": 1500, "shards": 16},
}

CANCEL_CMD = {"slurm": "scancel", "sge": "qdel", "lsf": "bkill"}


@st.composite
def _case(draw, tier):
    desc = draw(gen.wellformed(max_targets=7, max_files=10, ticks=3, min_targets=2, shapes=(0, 2, 4), spellings=(0, 1, 4, 5, 7)))
    names = [t["name"] for t in desc["targets"]]
    # stuck: still in the queue, in a state gwf cannot classify (SGE: pending in error state Eqw; LSF: UNKWN)
    state = {n: draw(st.sampled_from(["never", "pending", "pending", "running", "running", "completed", "failed", "stuck"]))
             for n in names}
    older = {n: draw(st.sampled_from([False, False, True])) for n in names}
    pats = draw(st.one_of(st.just([]), gen.patterns(names), st.just(["*"])))
    return {"desc": desc, "invoke": draw(gen.invoke()), "backend": draw(st.sampled_from(["slurm", "slurm", "sge", "lsf"])), "state": state,
            "older": older, "patterns": pats, "force": draw(st.booleans()),
            "answer": draw(st.sampled_from(["y\n", "y\n", "n\n", "\n"])),
            "outputs_exist": draw(st.booleans()),
            "fault_pos": draw(st.integers(0, 7)), "fault_kind": draw(st.sampled_from(["exit1", "stderr-error", "exit1-plain", "killed", "busy"]))}


def strategy(tier):
    return _case(tier)


def _local_extra():
    from vlib import realpool

    return [{"name": "local_real", "strategy": lambda tier: realpool.real_case(5 if tier == "quick" else 8),
             "examples": {"quick": 4, "thorough": 64}, "wall_s": 240},
            {"name": "local_restart_cancel", "strategy": lambda tier: realpool.restart_cancel_case(5 if tier == "quick" else 7),
             "examples": {"quick": 6, "thorough": 64}, "wall_s": 300}]


EXTRA_STRATEGIES = _local_extra()
CASE_TIMEOUT_S = 200


def run_local(case):
    """Local backend: real worker pool, `gwf cancel` through the real client."""
    from vlib import realpool

    if case.get("kind") == "restart-cancel":
        viols, labels, info = realpool.run_restart_cancel(case)
        mine = [Violation(dict(sig, backend="local"), msg) for p, sig, msg in viols]
        return CaseResult(mine, bool(info.get("nontrivial")), sorted(set(labels) | {"backend-local", "real-processes"}))
    viols, labels, info = realpool.run_real(case)
    mine = [Violation(dict(sig, backend="local"), msg) for p, sig, msg in viols if p == "C17"]
    return CaseResult(mine, bool(info.get("cancel_hit_running")), sorted(set(labels) | {"backend-local", "real-processes"}))


def run_case(case):
    if case.get("kind") in ("real", "restart-cancel"):
        return run_local(case)
    desc, flavour = case["desc"], case["backend"]
    cmd = CANCEL_CMD[flavour]
    viols, labels = [], {"backend-" + flavour}
    with project.Project(desc, backend=flavour, invoke=case.get("invoke")) as proj:
        R = model.Resolved(desc)
        names = [t.name for t in R.targets]
        sim = proj.sim
        proj.set_files({p: (t if p not in R.producers else None) or (1 if p not in R.producers else None)
                        for p, t in desc["files"].items()})
        # reach the wanted job states through real runs
        submit_twice = [n for n in names if case["older"][n] and case["state"][n] != "never"]
        wanted = [n for n in names if case["state"][n] != "never"]
        if submit_twice:
            r = proj.gwf(["run", *submit_twice])
            if r.code != 0:
                raise hist.SubjectFailure("setup run failed: " + r.brief())
            for j in list(sim.submissions()):
                # the older generation fails, so the next run submits these targets again
                j.state = simsched.FAILED
                j.fail_kind = "exit"
                if flavour == "sge":
                    j.in_queue = False
        if wanted:
            r = proj.gwf(["run", *wanted])
            if r.code != 0:
                raise hist.SubjectFailure("setup run failed: " + r.brief())
        latest = {}
        for n in names:
            j = sim.latest(n)
            if j is not None:
                latest[n] = j
        tracked = set(latest)
        # targets of the cone of `wanted` were submitted as well; give everything a state
        for n, j in latest.items():
            want = case["state"][n] if case["state"][n] != "never" else "pending"
            hist.set_job_state(sim, j, {"pending": "submitted", "stuck": "submitted"}.get(want, want))
            if want == "stuck" and flavour in ("sge", "lsf"):
                j.code = {"sge": "Eqw", "lsf": "UNKWN"}[flavour]
                labels.add("job-in-unclassifiable-state")
        if flavour == "slurm":
            for j in sim.submissions():
                if j.ended:
                    j.in_queue = False

        pats = case["patterns"]
        selected = model.match_names(names, pats) if pats else set(names)
        prompted = not pats and not case["force"]
        declined = prompted and not case["answer"].startswith("y")
        sel_tracked = sorted(n for n in selected if n in tracked)
        # fault at the k-th cancel command of this invocation (0 = none)
        k = case["fault_pos"]
        base = sim.counts.get(cmd, 0)
        if k and not declined:
            # a scheduler that is busy stays busy for the retries of the same request
            sim.faults = [simsched.Fault(cmd, base + k, case["fault_kind"], sticky=case["fault_kind"] == "busy")]
        log0 = len(sim.log)
        args = ["cancel"] + (["-f"] if case["force"] else []) + pats
        r = proj.gwf(args, input=case["answer"])
        sim.faults = []
        sent = [e for e in sim.log[log0:] if e["cmd"] == cmd]
        other_mut = [e for e in sim.log[log0:] if e["cmd"] in simsched.MUTATING and e["cmd"] != cmd]
        if other_mut:
            viols.append(Violation({"kind": "cancel-submitted-something"}, str([e["cmd"] for e in other_mut])))
        if r.crashed:
            viols.append(Violation({"kind": "crash", "exc": type(r.exc).__name__}, r.brief()))
        if declined:
            labels.add("declined")
            if sent:
                viols.append(Violation({"kind": "declined-but-cancelled"}, f"{[e['argv'] for e in sent]}"))
            if r.code == 0:
                viols.append(Violation({"kind": "declined-exit-0"}, r.brief()))
            return CaseResult(viols, False, sorted(labels))
        if r.code != 0:
            viols.append(Violation({"kind": "cancel-exit-nonzero", "code": r.code}, r.brief()))
        sent_ids = []
        for e in sent:
            ids = [a for a in e["argv"] if not a.startswith("-")]
            sent_ids += ids
        want_ids = sorted(latest[n].id for n in sel_tracked)
        if sorted(sent_ids) != want_ids:
            by_id = {j.id: j.name for j in sim.jobs.values()}
            extra = [i for i in sent_ids if i not in want_ids]
            missing = [i for i in want_ids if i not in sent_ids]
            kind = ("cancel-older-or-unknown-id" if any(i not in by_id or (by_id[i] in latest and latest[by_id[i]].id != i) for i in extra)
                    else "cancel-unselected" if extra else "cancel-missing")
            viols.append(Violation({"kind": kind, "backend": flavour},
                                   f"`gwf {' '.join(args)}` sent {cmd} for ids {sent_ids} ({[by_id.get(i) for i in sent_ids]}); "
                                   f"expected the latest jobs {want_ids} of selected tracked targets {sel_tracked}; fault at {k}"))
        # every uncancellable target is reported
        failed_entries = {tuple(a for a in e["argv"] if not a.startswith("-")) for e in sent if e["rc"] != 0 or "error:" in e["err"]}
        failed_ids = {i for tup in failed_entries for i in tup}
        unc = sorted({n for n in selected if n not in tracked} | {n for n in sel_tracked if latest[n].id in failed_ids})
        text = r.out + r.err
        for n in unc:
            # wording is free; the target must be named somewhere beyond the "Cancelling target <name>" progress line
            word = re.compile(r"(?<![A-Za-z0-9_.])" + re.escape(n) + r"(?![A-Za-z0-9_.])")
            mentions = sum(1 for line in text.splitlines() if word.search(line))
            if mentions < 2 and not word.search(r.out):
                viols.append(Violation({"kind": "uncancellable-not-reported"},
                                       f"{n} could not be cancelled but is not named in the output: {text[-400:]!r}"))
        # afterwards
        ok_cancelled = [n for n in sel_tracked if latest[n].id not in failed_ids and latest[n].state == simsched.CANCELLED]
        if flavour == "slurm":
            for j in sim.submissions():
                if j.ended:
                    j.in_queue = False
        r2 = proj.gwf(["status"])
        table = r2.status_rows()
        if r2.code != 0 or r2.crashed:
            viols.append(Violation({"kind": "status-failed"}, r2.brief()))
        else:
            for n in ok_cancelled:
                if table.get(n) in ("submitted", "running"):
                    viols.append(Violation({"kind": "still-in-flight-after-cancel", "backend": flavour},
                                           f"{n} shows {table.get(n)} after its job {latest[n].id} was cancelled"))
            # a cancel the scheduler refused leaves the job where it was: gwf still knows it
            for n in sel_tracked:
                j = latest[n]
                if j.id in failed_ids and not j.ended and j.in_queue and not j.code:
                    want_ = "running" if j.state == simsched.RUNNING else "submitted"
                    if table.get(n) != want_:
                        viols.append(Violation({"kind": "live-job-forgotten-after-refused-cancel", "backend": flavour},
                                               f"the cancel of {n}'s job {j.id} was refused ({case['fault_kind']}); the job is still "
                                               f"{want_}, but status shows {table.get(n)!r}"))
            # a cancelled job may have written its outputs already: fresh outputs must not hide the cancellation
            if case.get("outputs_exist") and flavour != "sge":
                for n in ok_cancelled:
                    proj.produce(n)
                labels.add("outputs-exist-after-cancel")
                r2b = proj.gwf(["status"])
                for n in ok_cancelled:
                    shown_ = r2b.status_rows().get(n)
                    if shown_ not in ("cancelled", "failed"):
                        viols.append(Violation({"kind": "cancellation-forgotten", "backend": flavour},
                                               f"{n}: its latest job {latest[n].id} was cancelled, its outputs exist; status shows {shown_!r}"))
            before = len(sim.submissions())
            r3 = proj.gwf(["run", *ok_cancelled]) if ok_cancelled else None
            if r3 is not None:
                again = {j.name for j in sim.submissions()[before:]}
                for n in ok_cancelled:
                    if n not in again:
                        viols.append(Violation({"kind": "cancelled-not-resubmittable", "backend": flavour},
                                               f"{n} was cancelled but the next run did not submit it (status {table.get(n)})"))
    nsel = len(sel_tracked)
    nt = nsel >= 3 and 0 < k < nsel
    if k and k <= nsel:
        labels.add("fault-hit")
    if any(case["older"].values()):
        labels.add("older-job-known")
    if pats:
        labels.add("patterns")
    return CaseResult(viols, nt, sorted(labels))
