"""C07  Prerequisites reach each scheduler intact, so no job starts on unfinished inputs."""

from hypothesis import strategies as st

from vlib import gen, hist, model, project, simsched
from vlib.runner import CaseResult, Violation

ID = "C07"
LEVEL = "exploration"
TECHNIQUE = ("Hypothesis-generated multi-invocation histories with adversarial scheduler execution (any releasable job "
             "may start, any running job may end with success or any failure kind, user/admin cancels) on simulated "
             "Slurm/SGE/LSF; syntax-level oracle (ids parsed by the simulator's own parser == ids it issued) and a "
             "journal invariant; real local pool tier with self-journalling children")
RULE = ("case = well-formed workflow (3-7, thorough 9 targets) + backend + a history of 3-14 (thorough 22) steps from "
        "{gwf run [patterns], start job k, finish job k ok|exit|timeout|oom|node_fail, cancel job k, modify a source, "
        "delete an output}, then an adversarial drain. Oracle: (syntax) for every accepted submission the dependency "
        "argument - afterok list / -hold_jid list / done() conjunction - parses to exactly the ids the scheduler returned "
        "for the latest jobs of the model's incomplete direct dependencies at that moment: none unknown, missing, stale or "
        "extra, and of the right dependency type; (semantics) in the simulator's journal no job starts before every such "
        "prerequisite job has ended, and on Slurm and LSF none starts after one of them failed or was cancelled. "
        "Non-trivial: some job has >=2 prerequisites of which at least one was submitted by an earlier gwf invocation. "
        "Distinct = SHA-1 of canonical case JSON.")
ASSUMPTIONS = [
    "scheduler semantics are simulated from the manuals (afterok, -hold_jid released when held jobs end however they end, done())",
    "SGE: finished jobs are invisible to gwf (no accounting), so a failed SGE dependency is indistinguishable from a finished one; the 'never starts after failure' clause is asserted for Slurm, LSF and the local pool only, as in the statement",
    "local backend tier: real worker pool and real sh children that journal their own start/end",
]
BUDGET = {
    "quick": {"examples": 200, "wall_s": 100, "shards": 4},
    "thorough": {"examples": 6000, "wall_s": 1500, "shards": 16},
}


@st.composite
def _case(draw, tier):
    big = tier == "thorough"
    desc = draw(gen.wellformed(max_targets=9 if big else 7, max_files=12 if big else 10, ticks=3, min_targets=3,
                               shapes=(0, 2, 4), spellings=(0, 1, 4, 5, 7)))
    names = [t["name"] for t in desc["targets"]]
    step = st.one_of(
        st.tuples(st.just("run"), st.one_of(st.just([]), st.just([]), gen.patterns(names))),
        st.tuples(st.just("run"), st.just([])),
        st.tuples(st.just("start"), st.integers(0, 9)),
        st.tuples(st.just("start"), st.integers(0, 9)),
        st.tuples(st.just("finish"), st.integers(0, 9), st.sampled_from(["ok", "ok", "ok", "exit", "timeout", "oom", "node_fail"])),
        st.tuples(st.just("finish"), st.integers(0, 9), st.just("ok")),
        st.tuples(st.just("cancel"), st.integers(0, 9)),
        st.tuples(st.just("purge"), st.integers(0, 9)),
        st.tuples(st.just("modify"), st.integers(0, 9)),
        st.tuples(st.just("delete"), st.integers(0, 9)),
    )
    # the first invocation usually requests only part of the workflow, so that later invocations submit
    # targets whose prerequisites are still in flight from an earlier one
    first = draw(st.one_of(st.just([]), st.lists(st.sampled_from(names), min_size=1, max_size=2, unique=True),
                           st.lists(st.sampled_from(names), min_size=1, max_size=2, unique=True)))
    steps = [["run", first]] + [list(s) for s in draw(st.lists(step, min_size=3, max_size=22 if big else 14))]
    return {"desc": desc, "invoke": draw(gen.invoke()), "backend": draw(st.sampled_from(["slurm", "slurm", "sge", "lsf"])), "steps": steps,
            "drain": draw(st.lists(st.tuples(st.integers(0, 9), st.sampled_from(["ok", "ok", "ok", "exit", "timeout"])),
                                   max_size=30))}


def strategy(tier):
    return _case(tier)


CHAIN3 = {"targets": [{"name": "A", "inputs": ["s"], "outputs": ["a"], "spec": "echo A\n", "wd": None},
                      {"name": "D", "inputs": ["s"], "outputs": ["d"], "spec": "echo D\n", "wd": None},
                      {"name": "T", "inputs": ["a", "d"], "outputs": ["t"], "spec": "echo T\n", "wd": None}],
          "files": {"s": 1, "a": None, "d": None, "t": None}}


def enumerate_cases(tier):
    """Prerequisites from an earlier invocation with history in between: one of the earlier jobs finished (and was
    possibly purged by the scheduler), another is still pending or running when the dependent is submitted."""
    for b in ("slurm", "sge", "lsf"):
        for purge in (False, True):
            for running in (False, True):
                steps = [["run", ["A", "D"]], ["start", 0], ["finish", 0, "ok"]]
                if purge:
                    steps.append(["purge", 0])
                if running:
                    steps.append(["start", 0])
                steps.append(["run", []])
                yield {"desc": CHAIN3, "backend": b, "steps": steps, "drain": [[1, "ok"], [0, "ok"], [0, "ok"], [0, "ok"]]}


def _local_extra():
    from vlib import poolprops, realpool

    return [
        {"name": "local_virtual", "strategy": lambda tier: poolprops.history(max_steps=25 if tier == "quick" else 40, burst=False),
         "examples": {"quick": 1600, "thorough": 40000}, "wall_s": 120},
        {"name": "local_real", "strategy": lambda tier: realpool.real_case(6 if tier == "quick" else 8),
         "examples": {"quick": 3, "thorough": 48}, "wall_s": 240},
    ]


EXTRA_STRATEGIES = _local_extra()
CASE_TIMEOUT_S = 200


def run_local(case):
    """Local worker pool: task ids passed as deps; a task never starts before (or after a failure of) its prerequisites."""
    from vlib import poolprops

    viols11, labels, info = poolprops.run(case, "C11")
    viols = [Violation(dict(v.sig, prop="C07", backend="local"), v.msg) for v in viols11
             if v.sig.get("kind", "").startswith("started-")]
    labels = set(labels) | {"backend-local"}
    return CaseResult(viols, bool(info.get("dep_not_ok_with_multi") or info.get("skipped_dependents")), sorted(labels))


def run_case(case):
    if "cores" in case:
        return run_local(case)
    desc, flavour = case["desc"], case["backend"]
    viols, labels = [], {"backend-" + flavour}
    expected = {}  # job id -> set of prerequisite job ids (model)
    invocation = {}  # job id -> number of the gwf run that submitted it
    nt = False
    with project.Project(desc, backend=flavour, invoke=case.get("invoke")) as proj:
        R0 = model.Resolved(desc)
        proj.set_files({p: (t if t is not None or p in R0.producers else 1) for p, t in desc["files"].items()})
        S = hist.Session(proj, desc)
        sim = proj.sim
        run_no = 0

        def on_start(j):
            for pid in expected.get(j.id, ()):
                p = sim.jobs[pid]
                if not p.ended:
                    viols.append(Violation({"kind": "started-before-prerequisite-ended", "backend": flavour},
                                           f"job {j.id} ({j.name}) started while prerequisite {p.id} ({p.name}) is {p.state}; "
                                           f"submitted with {j.raw_dep!r}"))
                elif p.state != simsched.DONE and flavour in ("slurm", "lsf"):
                    viols.append(Violation({"kind": "started-after-prerequisite-failed", "backend": flavour},
                                           f"job {j.id} ({j.name}) started although prerequisite {p.id} ({p.name}) ended {p.state}; "
                                           f"submitted with {j.raw_dep!r}"))

        def do_run(pats):
            nonlocal run_no, nt
            run_no += 1
            R = S.refresh()
            names = S.names()
            requested = model.match_names(names, pats) if pats else R.endpoints()
            _, subs = S.plan(requested)
            want = dict(subs)
            n_before = len(sim.submissions())
            r, new = S.run(pats)
            if r.code != 0 or r.crashed:
                viols.append(Violation({"kind": "run-failed"}, r.brief()))
                return
            extra = sorted(j.name for j in new if j.name not in want)
            if extra:
                viols.append(Violation({"kind": "in-flight-or-complete-target-resubmitted", "backend": flavour},
                                       f"run submitted {extra}, which the scheduler's own job states say are in flight or complete "
                                       f"(vector {S.vector()})"))
            for j in new:
                invocation[j.id] = run_no
                ids, problems = hist.dep_ids(flavour, j)
                for p in problems:
                    viols.append(Violation({"kind": "dependency-syntax", "backend": flavour}, f"{j.name}: {p}"))
                exp = set()
                for d in want.get(j.name, ()):
                    # a prerequisite the model re-submits in this run is its new job; otherwise the job that was
                    # already in flight before this invocation
                    limit = j.order if d in want else n_before
                    cands = [x for x in sim.submissions() if x.name == d and x.order < limit]
                    if cands:
                        exp.add(max(cands, key=lambda x: x.order).id)
                    else:
                        viols.append(Violation({"kind": "prerequisite-never-submitted"},
                                               f"{j.name} must wait for {d}, which has no job before it"))
                expected[j.id] = exp
                if j.name in want and set(ids) != exp or len(ids) != len(set(ids)):
                    unknown = [i for i in ids if i not in sim.jobs]
                    kind = ("unknown-prerequisite-id" if unknown else "missing-prerequisite-id" if exp - set(ids)
                            else "extra-prerequisite-id")
                    viols.append(Violation({"kind": kind, "backend": flavour},
                                           f"{j.name} (job {j.id}) submitted with {j.raw_dep!r} = ids {ids}; the latest jobs of its "
                                           f"incomplete direct dependencies {sorted(want.get(j.name, ()))} are {sorted(exp)}"))
                if len(exp) >= 2 and any(invocation.get(i, 0) < run_no for i in exp):
                    nt = True
                    labels.add("prereq-from-earlier-invocation")

        for step in case["steps"]:
            op = step[0]
            if op == "run":
                do_run(step[1])
            elif op == "start":
                c = sim.startable()
                if c:
                    j = c[step[1] % len(c)]
                    sim.start(j.id)
                    on_start(j)
            elif op == "finish":
                c = sim.running()
                if c:
                    j = c[step[1] % len(c)]
                    if step[2] == "ok":
                        S.complete(j)
                    else:
                        sim.finish(j.id, ok=False, fail_kind=step[2])
                        labels.add("prerequisite-fails")
                    sim.kill_never_satisfied()
            elif op == "cancel":
                c = [j for j in sim.submissions() if not j.ended]
                if c:
                    sim.cancel(c[step[1] % len(c)].id, by="admin")
                    labels.add("cancel")
                    sim.kill_never_satisfied()
            elif op == "purge":
                # the scheduler forgets a job that ended long ago
                c = [j for j in sim.submissions() if j.ended and (j.in_queue or j.in_acct)]
                if c:
                    sim.age_out(c[step[1] % len(c)].id, queue=True, acct=True)
                    labels.add("purged-job")
            elif op in ("modify", "delete"):
                R = S.refresh()
                if op == "modify":
                    srcs = sorted(p for t in R.targets for p in t.inset if p not in R.producers)
                    if srcs:
                        proj.stamp(srcs[step[1] % len(srcs)], proj.next_tick())
                else:
                    outs = sorted(p for p in R.producers if proj.tick_of(p) is not None)
                    if outs:
                        proj.set_files({outs[step[1] % len(outs)]: None})
            if viols:
                break
        # adversarial drain
        plan = list(case["drain"])
        for _ in range(500):
            if viols:
                break
            sim.kill_never_satisfied()
            opts = [("start", j) for j in sim.startable()] + [("finish", j) for j in sim.running()]
            if not opts:
                break
            k, how = plan.pop(0) if plan else (0, "ok")
            kind, j = opts[k % len(opts)]
            if kind == "start":
                sim.start(j.id)
                on_start(j)
            elif how == "ok":
                S.complete(j)
            else:
                sim.finish(j.id, ok=False, fail_kind=how)
                labels.add("prerequisite-fails")
        if sim.anomalies:
            viols.append(Violation({"kind": "unknown-hold-id", "backend": flavour}, f"{sim.anomalies[:3]}"))
    return CaseResult(viols, nt, sorted(labels))
