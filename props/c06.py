"""C06  Convergence: a successful run leaves everything complete; re-run is a no-op."""

import os

from hypothesis import strategies as st

from vlib import gen, hist, model, project
from vlib.runner import CaseResult, Violation

ID = "C06"
LEVEL = "exploration"
TECHNIQUE = ("Hypothesis-generated run / execute / perturb histories on simulated Slurm, SGE and LSF (execution order "
             "chosen by the generator among the scheduler's legal transitions) and on the real local worker pool; "
             "fix-point oracle plus minimal re-run set computed on the workflow description")
RULE = ("case = well-formed workflow (3-7, thorough 10 targets) + initial file ticks + backend slurm(accounting on/off)|"
        "sge|lsf|local + initial backend vector over unknown/completed/failed/cancelled (no job in flight) + spec hashing "
        "on/off + a list of integers choosing which legal scheduler transition (start any releasable job / finish any "
        "running job) happens next + 1-3 perturbation rounds (modify one source | delete one output | change only the "
        "metadata of a file: chmod + hard link) + per-job choice of "
        "output mtime (fresh tick or tie with the newest input). Oracle: after `gwf run` and a successful drain every "
        "target of the cone that declares outputs is completed in `gwf status`, and a second `gwf run` submits only "
        "targets without outputs; after a perturbation the submitted set equals consumers-of-the-modified-file / "
        "producer-of-the-deleted-file closed under 'transitively depends on', plus output-less targets of the cone - "
        "computed on the description, not on gwf's graph. Non-trivial: >=4 targets with a join or shared dependency and "
        "a perturbation hitting a non-endpoint. Distinct = SHA-1 of canonical case JSON.")
ASSUMPTIONS = [
    "simulated schedulers hold a job until its dependency condition is met by the documented semantics (afterok / hold_jid / done())",
    "abstract execution: a job that ends successfully has created all its declared outputs, stamped not older than its inputs",
    "files dated in the future are not generated here (C16 covers the carve-out)",
    "local backend: a real `gwf workers` pool in a sub-process with real sh children that create their outputs (4 cases in the quick tier, 64 in the thorough tier): all completed, second run a no-op, deleting one output re-runs exactly its producer and everything downstream (decided from the tasks' own start journal)",
]
BUDGET = {
    "quick": {"examples": 150, "wall_s": 100, "shards": 4},
    "thorough": {"examples": 5000, "wall_s": 1500, "shards": 16},
}


@st.composite
def _case(draw, tier):
    big = tier == "thorough"
    desc = draw(gen.wellformed(wf_wds=(None, None, "wdir"), wds=(None, None, None, "w1"), max_targets=10 if big else 7, max_files=14 if big else 10, ticks=4, min_targets=3,
                               shapes=(0, 2, 4, 5), spellings=(0, 1, 2)))
    names = [t["name"] for t in desc["targets"]]
    vec = {n: draw(st.sampled_from(["unknown", "unknown", "completed", "failed", "cancelled"])) for n in names}
    rounds = draw(st.lists(st.tuples(st.sampled_from(["modify", "delete", "metadata"]), st.integers(0, 20)), min_size=1, max_size=3))
    return {"desc": desc, "invoke": draw(gen.invoke()), "backend": draw(st.sampled_from(["slurm", "slurm", "sge", "lsf"])),
            "accounting": draw(st.sampled_from([True, True, False])), "vector": vec,
            "hashing": draw(st.sampled_from([False, True])),
            "order": draw(st.lists(st.integers(0, 7), min_size=0, max_size=40)),
            "ties": draw(st.lists(st.booleans(), max_size=12)),
            "symlink_sources": draw(st.sampled_from([False, False, True])),
            "rounds": [list(r) for r in rounds]}


def strategy(tier):
    return _case(tier)


def _local_extra():
    from vlib import realpool

    return [{"name": "local_real", "strategy": lambda tier: realpool.converge_case(5 if tier == "quick" else 8),
             "examples": {"quick": 4, "thorough": 64}, "wall_s": 240}]


EXTRA_STRATEGIES = _local_extra()
CASE_TIMEOUT_S = 200


def run_local(case):
    """Local backend, real worker pool: after a fully successful run everything is completed, a second run is a
    no-op, and deleting one output re-runs exactly its producer and everything downstream."""
    from vlib import realpool

    viols, labels, info = realpool.run_real(case)
    mine = [Violation(dict(sig, backend="local"), msg) for p, sig, msg in viols if p == "C06"]
    return CaseResult(mine, "perturb-delete" in labels, sorted(set(labels) | {"backend-local", "real-processes"}))


def run_case(case):
    if case.get("kind") == "real":
        return run_local(case)
    desc = case["desc"]
    flavour = case["backend"]
    cfg = {}
    if case["hashing"]:
        cfg["use_spec_hashes"] = True
    if flavour == "slurm" and not case["accounting"]:
        cfg["backend.slurm.accounting_enabled"] = False
    viols, labels = [], {"backend-" + flavour}
    order = case["order"]
    ties = list(case["ties"])
    exec_log = []

    with project.Project(desc, backend=flavour, config=cfg, invoke=case.get("invoke")) as proj:
        R0 = model.Resolved(desc)
        sources = {p: (t if t is not None else 1) for p, t in desc["files"].items() if p not in R0.producers}
        links = set(sources) if case.get("symlink_sources") else set()
        if links:
            labels.add("symlinked-sources")
        proj.set_files(sources, symlinks=links)
        hist.prepopulate(proj, R0, case["vector"])
        proj.set_files({p: desc["files"].get(p) for p in R0.producers})
        S = hist.Session(proj, desc, hashing=case["hashing"], accounting=case["accounting"])
        if case["hashing"]:
            S.records = {t.name: t.spec for t in R0.targets}
        names = S.names()

        def choose(k, n):
            return order[k % len(order)] if order else 0

        def complete_with_ties(job):
            S.sim.finish(job.id, ok=True)
            T = S.R.by_name.get(job.name)
            if T is None:
                return
            tie = ties.pop(0) if ties else False
            if tie and T.inset:
                ins = [proj.tick_of(p) for p in T.inset if proj.tick_of(p) is not None]
                tick = max(ins) if ins else proj.next_tick()
                for rel in sorted(T.outset):
                    with open(proj.path(rel), "a") as f:
                        f.write(f"made by {job.name}\n")
                    proj.stamp(rel, tick)
                labels.add("tie-output-input")
            else:
                proj.produce(job.name)
            exec_log.append(job.name)

        S.complete = complete_with_ties

        def run_and_drain(what):
            r, new = S.run()
            if r.code != 0 or r.crashed:
                viols.append(Violation({"kind": "run-failed", "when": what}, r.brief()))
                return None
            sub_order = [j.name for j in new]
            S.refresh()
            stuck = S.drain(choose)
            if stuck:
                viols.append(Violation({"kind": "job-never-runnable", "backend": flavour},
                                       f"{what}: jobs {[(j.name, j.raw_dep) for j in stuck]} can never start although every job succeeded"))
            if sub_order != [n for n in exec_log[-len(sub_order):]] and sub_order:
                labels.add("execution-order-differs-from-submission")
            return new

        def check_fixpoint(what):
            R = S.refresh()
            r = proj.gwf(["status"])
            table = r.status_rows()
            if r.code != 0 or r.crashed:
                viols.append(Violation({"kind": "status-failed", "when": what}, r.brief()))
                return
            for n in names:
                if R.by_name[n].outset and table.get(n) != "completed":
                    viols.append(Violation({"kind": "not-completed-after-successful-run", "status": table.get(n),
                                            "backend": flavour},
                                           f"{what}: {n} is {table.get(n)} after every submitted job succeeded "
                                           f"(files {S.proj.file_state(sorted(R.by_name[n].inset | R.by_name[n].outset))})"))
            r2, new = S.run()
            extra = sorted(j.name for j in new if R.by_name[j.name].outset)
            if extra:
                viols.append(Violation({"kind": "rerun-not-noop", "backend": flavour},
                                       f"{what}: second run submitted {extra} although everything had just completed"))
            missing = sorted(n for n in names if not R.by_name[n].outset and n not in {j.name for j in new})
            if missing and r2.code == 0:
                viols.append(Violation({"kind": "outputless-not-submitted"}, f"{what}: {missing}"))
            S.drain(choose)

        if run_and_drain("first run") is not None and not viols:
            check_fixpoint("after first run")
        nontrivial_hit = False
        for kind, k in case["rounds"]:
            if viols:
                break
            R = S.refresh()
            srcs = sorted(p for t in R.targets for p in t.inset if p not in R.producers)
            outs = sorted(R.producers)
            if kind == "modify" and srcs:
                f = srcs[k % len(srcs)]
                with open(proj.path(f), "a") as fh:
                    fh.write("modified\n")
                proj.stamp(f, proj.next_tick())
                seeds = {t.name for t in R.targets if f in t.inset}
            elif kind == "metadata" and [p for p in srcs + outs if os.path.exists(proj.path(p))]:
                # permissions change and the file gets a second name (chmod, ln): neither its content nor its
                # modification time changes, so nothing has to run again
                present = [p for p in srcs + outs if os.path.exists(proj.path(p))]
                f = present[k % len(present)]
                os.chmod(proj.path(f), os.stat(proj.path(f)).st_mode ^ 0o040)
                os.makedirs(proj.path("_links"), exist_ok=True)
                link = proj.path(os.path.join("_links", f.replace("/", "__") + f".{k}"))
                if not os.path.lexists(link):
                    os.link(os.path.realpath(proj.path(f)), link)
                seeds = set()
            elif outs:
                f = outs[k % len(outs)]
                proj.set_files({f: None})
                seeds = set(R.producers[f])
                kind = "delete"
            else:
                continue
            labels.add("perturb-" + kind)
            expect = R.downstream(seeds) | {n for n in names if not R.by_name[n].outset}
            if seeds - R.endpoints():
                nontrivial_hit = True
            before = len(S.sim.submissions())
            r, new = S.run()
            if r.code != 0 or r.crashed:
                viols.append(Violation({"kind": "run-failed", "when": kind}, r.brief()))
                break
            got = sorted(j.name for j in new)
            if got != sorted(expect):
                viols.append(Violation({"kind": "rerun-set", "perturbation": kind, "backend": flavour},
                                       f"after {kind} of {f}: run submitted {got}, expected exactly {sorted(expect)} "
                                       f"(seeds {sorted(seeds)})"))
                break
            S.drain(choose)
            check_fixpoint(f"after {kind} {f}")
    R = model.Resolved(desc)
    joins = any(len(R.deps[n]) >= 2 for n in R.deps) or any(len(R.dependents[n]) >= 2 for n in R.deps)
    if case["hashing"]:
        labels.add("hashing")
    if any(v in ("failed", "cancelled") for v in case["vector"].values()):
        labels.add("earlier-failed-or-cancelled")
    return CaseResult(viols, len(R.targets) >= 4 and joins and nontrivial_hit, sorted(labels))
