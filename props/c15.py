"""C15  clean deletes only unprotected declared outputs of the selected targets."""

import os

from hypothesis import strategies as st

from vlib import gen, hist, model, project
from vlib.runner import CaseResult, Violation

ID = "C15"
LEVEL = "exploration"
TECHNIQUE = ("Hypothesis-generated workflows, existing-file subsets, protect sets in varied spellings, --all/--force/"
             "pattern/prompt-answer combinations through the real CLI; deletable set computed on the description; "
             "before/after directory snapshots")
RULE = ("case = well-formed workflow (2-6, thorough 9 targets) with per-target protect sets (output paths in other "
        "spellings, outputs of other targets, non-output files), any subset of outputs/sources existing, unrelated files, "
        "planted logs, spec hashing on or off with records from a real first run, options --all/--force, name patterns, "
        "prompt answer y/n/empty. Oracle from the description: deletable = union over selected targets (pattern match, "
        "minus endpoints unless --all) of outputs minus that target's protected paths; after the command removed files "
        "== existing & deletable exactly, every other file byte- and mtime-identical (also the content of a directory "
        "standing where a declared output file would be: clean carries on with the other outputs), spec-hash records of selected "
        "targets erased and all others kept; a declined prompt leaves the snapshot identical and exits non-zero. "
        "Non-trivial: a selected target has both a protected and an unprotected existing output and an existing "
        "output belongs to an unselected target. "
        "Also: protect sets handed over as one-shot iterables; a directory (with a file in it) standing where "
        "a declared output would be; invocation styles of project.Project. "
        "Distinct = SHA-1 of canonical case JSON.")
ASSUMPTIONS = [
    "a directory may stand where a declared output file would be: whether the directory itself goes is not decided by the property, its content is not a declared output and must stay, and the other outputs are still removed",
    "spec-hash records are read from .gwf/spec-hashes.json as a JSON object keyed by target name (the observation point named by the property)",
]
BUDGET = {
    "quick": {"examples": 700, "wall_s": 100, "shards": 4},
    "thorough": {"examples": 10000, "wall_s": 1500, "shards": 16},
}


@st.composite
def _case(draw, tier):
    big = tier == "thorough"
    desc = draw(gen.wellformed(wf_wds=(None, None, "wdir"), wds=(None, None, None, "w1"), max_targets=9 if big else 6, max_files=12 if big else 9, ticks=3, min_targets=2,
                               shapes=(0, 2, 4, 5, 7), spellings=(0, 1, 2, 3, 4, 5, 7), protect=True))
    names = [t["name"] for t in desc["targets"]]
    # make outputs mostly exist
    for p in list(desc["files"]):
        if desc["files"][p] is None and draw(st.integers(0, 3)) > 0:
            desc["files"][p] = draw(st.integers(1, 3))
    if draw(st.booleans()):
        for t in desc["targets"]:
            outs = sorted(model.T(t).outset)
            if len(outs) >= 2:
                t["protect"] = [gen.spell(outs[0], draw(st.sampled_from([0, 1, 2, 3, 4, 5, 7])))]
                for o in outs[:2]:
                    desc["files"][o] = desc["files"][o] or 2
                break
    for t in desc["targets"]:
        # the protect set may be handed over as any iterable, also one that can be walked only once
        if t.get("protect") and isinstance(t["protect"], list) and draw(st.integers(0, 3)) == 0:
            t["protect"] = {"__it": t["protect"]}
    return {
        "desc": desc,
        "invoke": draw(gen.invoke()),
        "all": draw(st.sampled_from([True, True, False])),
        "force": draw(st.booleans()),
        "patterns": draw(st.one_of(st.just([]), gen.patterns(names), gen.patterns(names))),
        "answer": draw(st.sampled_from(["y\n", "n\n", "\n", "y\n"])),
        "hashing": draw(st.booleans()),
        # one declared output that does not exist as a file is a directory (with a file in it) when clean runs
        "dir_output": draw(st.one_of(st.none(), st.none(), st.integers(0, 9))),
    }


def strategy(tier):
    return _case(tier)


def run_case(case):
    desc = case["desc"]
    R = model.Resolved(desc)
    names = [t.name for t in R.targets]
    cfg = {"use_spec_hashes": True} if case["hashing"] else {}
    viols, labels = [], set()
    with project.Project(desc, backend="slurm", config=cfg, invoke=case.get("invoke")) as proj:
        sources = {p: (t if t is not None else 1) for p, t in desc["files"].items() if p not in R.producers}
        proj.set_files(sources)
        hist.prepopulate(proj, R, {})
        proj.set_files({p: desc["files"].get(p) for p in R.producers})
        proj.set_files({"unrelated.txt": 1, "d/keep.me": 2, "x/other.dat": 1})
        if case.get("dir_output") is not None:
            cand = sorted(p for p in R.producers if desc["files"].get(p) is None
                          and not any(q != p and q.startswith(p + "/") for q in desc["files"]))
            if cand:
                dpath = cand[case["dir_output"] % len(cand)]
                os.makedirs(proj.path(dpath), exist_ok=True)
                with open(proj.path(os.path.join(dpath, "inner.txt")), "w") as f:
                    f.write("not a declared output\n")
                labels.add("output-is-a-directory")
        for n in names[:2] + ["Gone"]:
            with open(proj.path(f".gwf/logs/{n}.stdout"), "w") as f:
                f.write("log\n")
        pats = case["patterns"]
        selected = model.match_names(names, pats) if pats else set(names)
        if not case["all"]:
            selected -= R.endpoints()
        deletable = set()
        for n in selected:
            T = R.by_name[n]
            deletable |= (T.outset - T.protect)
        prompted = not pats and not case["force"]
        declined = prompted and not case["answer"].startswith("y")

        before = proj.snapshot()
        rec_before = proj.state_json("spec-hashes.json")
        log0 = len(proj.sim.log)
        args = ["clean"] + (["--all"] if case["all"] else []) + (["--force"] if case["force"] else []) + pats
        r = proj.gwf(args, input=case["answer"])
        after = proj.snapshot()
        rec_after = proj.state_json("spec-hashes.json")
        diff = proj.snap_diff(before, after)
        if r.crashed:
            viols.append(Violation({"kind": "crash", "exc": type(r.exc).__name__}, r.brief()))
        if len(proj.sim.log) != log0:
            viols.append(Violation({"kind": "clean-called-scheduler"}, str(proj.sim.log[log0:])))
        if declined:
            labels.add("declined")
            if diff:
                viols.append(Violation({"kind": "declined-but-changed"}, f"prompt declined, yet {diff[:3]}"))
            if r.code == 0:
                viols.append(Violation({"kind": "declined-exit-0"}, r.brief()))
        else:
            if r.code != 0:
                viols.append(Violation({"kind": "clean-failed", "code": r.code}, r.brief()))
            existing = {k for k, v in before.items() if v[0] == "file"}
            want_removed = {p for p in deletable if p in existing}
            removed = {k for k, x, y in diff if y is None and x is not None and x[0] == "file"}
            changed = {k for k, x, y in diff if not (y is None and x is not None and x[0] == "file")
                       and k != ".gwf/spec-hashes.json"}
            for p in sorted(removed - want_removed):
                T_owner = R.producers.get(p)
                kind = ("deleted-protected" if any(p in R.by_name[o].protect for o in (T_owner or []))
                        else "deleted-output-of-unselected" if T_owner else "deleted-non-output")
                viols.append(Violation({"kind": kind}, f"`gwf {' '.join(args)}` removed {p} (producers {T_owner}, selected {sorted(selected)})"))
            for p in sorted(want_removed - removed):
                viols.append(Violation({"kind": "not-deleted"}, f"`gwf {' '.join(args)}` kept unprotected output {p} of a selected target"))
            if changed:
                viols.append(Violation({"kind": "other-file-changed"}, f"{sorted(changed)[:4]}"))
            if case["hashing"]:
                want_rec = {k: v for k, v in rec_before.items() if k not in selected}
                if rec_after != want_rec:
                    viols.append(Violation({"kind": "hash-records"},
                                           f"records after clean {sorted(rec_after)}; expected {sorted(want_rec)} (selected {sorted(selected)})"))
            elif rec_after != rec_before:
                viols.append(Violation({"kind": "hash-records-while-disabled"}, f"{rec_before} -> {rec_after}"))
    existing_out = {p for p in R.producers if desc["files"].get(p) is not None}
    nt = any(
        (R.by_name[n].outset & R.by_name[n].protect & existing_out) and ((R.by_name[n].outset - R.by_name[n].protect) & existing_out)
        for n in selected
    ) and any(p in existing_out for n in set(names) - selected for p in R.by_name[n].outset)
    if case["all"]:
        labels.add("--all")
    if pats:
        labels.add("patterns")
    if prompted:
        labels.add("prompted")
    if any(R.by_name[n].protect for n in selected):
        labels.add("protect-in-selection")
    return CaseResult(viols, nt and not declined, sorted(labels))
