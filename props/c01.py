"""C01  Up-to-date decision follows make semantics on files, timestamps and spec."""

import itertools

from hypothesis import strategies as st

from vlib import api, gen, model
from vlib.runner import CaseResult, Violation

ID = "C01"
LEVEL = "exploration"
TECHNIQUE = ("bounded-exhaustive enumeration of one-target file/timestamp/shape/spec-hash states plus "
             "Hypothesis-generated DAGs, both against an independent executable make-semantics model; "
             "metamorphic regrouping/respelling")
RULE = ("(a) exhaustive: one target, 0-2 inputs with mtimes in {1,2,3}, 0-2 outputs each missing or mtime in {1,2,3}, "
        "4 input x 9 output container shapes (incl. empty-member ones), spec hashing off/same/changed/no-record, backend "
        "unknown/completed; (b) generated: well-formed DAGs of 1-6 (thorough 10) targets, ladder mtimes, shapes and "
        "spellings drawn per occurrence, backend vector over unknown/completed, random spec records; API level "
        "(get_status_map / submit_workflow with in-memory filesystem and backend) and CLI level (gwf status + gwf run "
        "on a real directory tree against the simulated Slurm). Oracle: model.plan (completed iff >=1 output, all "
        "outputs exist, max input mtime <= min output mtime, spec unchanged when hashing); the set submitted by a run "
        "equals the shouldrun set; regrouping/respelling the same path sets leaves the status map unchanged. "
        "Non-trivial: the decided target has >=1 input and >=1 output, all its files exist, its dependencies are "
        "complete (so the timestamp comparison decides). "
        "CLI tier also: per-target working directories (targets with one are made from a template), spec "
        "hashing switched off through `gwf config set use_spec_hashes no|false|0`, and the invocation styles "
        "of project.Project (sub-directory, -f from elsewhere, named workflow object next to a decoy, "
        "symlinked workflow file). "
        "Distinct = SHA-1 of canonical case JSON.")
ASSUMPTIONS = [
    "mtimes are small integers (exact ties frequent); sub-second behaviour of real filesystems is not varied",
    "API tier uses an in-memory filesystem/backend implementing gwf's documented fs/backend interface",
    "bounds: <=10 targets, <=14 files, <=3 inputs/outputs per target",
]
BUDGET = {
    "quick": {"examples": 500, "wall_s": 90, "shards": 4},
    "thorough": {"examples": 15000, "wall_s": 1500, "shards": 16},
}

ISHAPES = (0, 2, 4, 7, 11)
OSHAPES = (0, 1, 2, 3, 4, 5, 7, 8, 9, 11)  # 11: a Mapping that is not a dict
HASH = ("off", "same", "diff", "none")


def enumerate_cases(tier):
    ins = [c for n in range(3) for c in itertools.product((1, 2, 3), repeat=n)]
    outs = [c for n in range(3) for c in itertools.product((None, 1, 2, 3), repeat=n)]
    for i, o, ish, osh, h, b in itertools.product(ins, outs, ISHAPES, OSHAPES, HASH, ("unknown", "completed")):
        yield {"kind": "single", "ins": list(i), "outs": list(o), "ishape": ish, "oshape": osh, "hash": h, "backend": b}


def single_desc(c):
    ins = [f"i{k}" for k in range(len(c["ins"]))]
    outs = [f"o{k}" for k in range(len(c["outs"]))]
    files = dict(zip(ins, c["ins"]))
    files.update(zip(outs, c["outs"]))
    t = {"name": "T", "inputs": gen.shape(ins, c["ishape"], 1), "outputs": gen.shape(outs, c["oshape"], 1),
         "spec": "echo one\n", "wd": None}
    rec = {"off": None, "same": {"T": "echo one\n"}, "diff": {"T": "echo other\n"}, "none": {}}[c["hash"]]
    return {"targets": [t], "files": files}, {"T": c["backend"]}, c["hash"] != "off", rec


@st.composite
def _generated(draw, tier):
    big = tier == "thorough"
    desc = draw(gen.wellformed(max_targets=10 if big else 6, max_files=14 if big else 8, ticks=4, wds=(None, None, None, "w1", "w1/w2")))
    names = [t["name"] for t in desc["targets"]]
    vec = {n: draw(st.sampled_from(["unknown", "unknown", "completed"])) for n in names}
    hashing = draw(st.booleans())
    rec = {}
    if hashing:
        for t in desc["targets"]:
            k = draw(st.sampled_from(["same", "same", "diff", "none"]))
            if k == "same":
                rec[t["name"]] = t["spec"]
            elif k == "diff":
                rec[t["name"]] = t["spec"] + "#old"
    return {"kind": "dag", "desc": desc, "backend": vec, "hashing": hashing, "records": rec}


def strategy(tier):
    return _generated(tier)


def _cli_strategy(tier):
    @st.composite
    def cli(draw):
        c = draw(_generated(tier))
        # hashing_cli: spec hashing switched on in a project that has no record file yet (every target is stale);
        # step: seconds between two ticks of the mtime ladder (0.25 keeps all files within one second)
        return dict(c, kind="cli", invoke=draw(gen.invoke()), hashing=False, records={}, hashing_cli=draw(st.sampled_from([False, False, True, "off:no", "off:false", "off:0"])),
                    step=draw(st.sampled_from([10, 0.25, 0.25])))

    return cli()


# the same generated DAGs on a real directory tree through `gwf status` / `gwf run`; here the mtime ladder
# starts at the Unix epoch (tick 1 = mtime 0.0), a legal if unusual timestamp
EXTRA_STRATEGIES = [{"name": "cli", "strategy": _cli_strategy, "examples": {"quick": 400, "thorough": 24000}, "wall_s": 200}]


def run_cli(case):
    from vlib import project

    desc, vec = case["desc"], case["backend"]
    R = model.Resolved(desc)
    # "off:<word>": hashing was on in the configuration file and is switched off the way a user does it
    # (`gwf config set use_spec_hashes <word>`); no record file exists, so if hashing stayed on every target were stale
    off_word = case["hashing_cli"][4:] if isinstance(case.get("hashing_cli"), str) else None
    hc = bool(case.get("hashing_cli")) and off_word is None
    want, subs = R.plan(R.by_name.keys(), {}, hc, {})
    viols = []
    with project.Project(desc, backend="slurm", config={"use_spec_hashes": True} if hc or off_word else None,
                         invoke=case.get("invoke")) as proj:
        if off_word:
            rc_ = proj.gwf(["config", "set", "use_spec_hashes", off_word])
            if rc_.code != 0 or rc_.crashed:
                return CaseResult([Violation({"kind": "config-set-failed"}, rc_.brief())], False, ["cli"])
        proj.tick_step = case.get("step", 10)
        proj.base_mtime = -proj.tick_step  # tick 1 -> 1970-01-01T00:00:00
        proj.set_files(desc["files"])
        r = proj.gwf(["status"])
        if r.code != 0 or r.crashed:
            return CaseResult([Violation({"kind": "status-failed", "exc": type(r.exc).__name__ if r.exc else None},
                                         f"files {desc['files']}: " + r.brief())], False, ["cli"])
        got = r.status_rows()
        for n in sorted(want):
            if got.get(n) != want[n]:
                T = R.by_name[n]
                viols.append(Violation({"kind": "wrong-status-cli", "want": want[n], "got": got.get(n)},
                                       f"target {n}: `gwf status` says {got.get(n)}, make semantics say {want[n]} "
                                       f"(inputs {sorted(T.inset)}, outputs {sorted(T.outset)}, ticks {R.files}; tick 1 is mtime 0)"))
        r2 = proj.gwf(["run"])
        sub = sorted(j.name for j in proj.sim.submissions())
        if r2.code != 0 or sub != sorted(n for n, _ in subs):
            viols.append(Violation({"kind": "run-submits-other-set-cli"},
                                   f"run submitted {sub}, expected {sorted(n for n, _ in subs)}: {r2.brief()}"))
    nt = any(s_ in ("completed", "shouldrun") and R.by_name[n].inset and R.by_name[n].outset
             and all(R.exists(p) for p in R.by_name[n].inset | R.by_name[n].outset) for n, s_ in want.items())
    labels = {"cli"}
    if any(t == 1 for t in desc["files"].values()):
        labels.add("epoch-mtime")
    if case.get("step", 10) < 1:
        labels.add("sub-second-mtimes")
    if hc:
        labels.add("hashing-no-record")
    if off_word:
        labels.add("hashing-switched-off-through-cli")
    return CaseResult(viols, nt, sorted(labels))


def _canonical(desc):
    """Same path sets, plainest grouping and spelling (metamorphic partner)."""
    out = {"files": desc["files"], "targets": []}
    for t in desc["targets"]:
        T = model.T(t)
        out["targets"].append({"name": t["name"], "inputs": sorted(T.inset), "outputs": sorted(T.outset),
                               "spec": t["spec"], "wd": None})
    return out


def _gwf_status(desc, vec, hashing, rec):
    from gwf.scheduling import get_status_map, submit_workflow

    graph, fs = api.build_graph(desc)
    smap = get_status_map(graph, fs, api.MemHashes(rec, hashing), api.MemBackend(vec))
    status = {t.name: s.name.lower() for t, s in smap.items()}
    graph2, fs2 = api.build_graph(desc)
    be = api.MemBackend(vec)
    submit_workflow(graph2.endpoints(), graph2, fs2, api.MemHashes(rec, hashing), be)
    return status, [n for n, _ in be.calls]


def run_case(case):
    if case["kind"] == "cli":
        return run_cli(case)
    if case["kind"] == "single":
        desc, vec, hashing, rec = single_desc(case)
    else:
        desc, vec, hashing, rec = case["desc"], case["backend"], case["hashing"], case["records"]
    R = model.Resolved(desc)
    want, subs = R.plan(R.by_name.keys(), vec, hashing, rec)
    viols, labels = [], set()
    try:
        got, submitted = _gwf_status(desc, vec, hashing, rec)
    except Exception as exc:  # noqa: BLE001
        return CaseResult([Violation({"kind": "exception", "type": type(exc).__name__},
                                     f"status computation raised {type(exc).__name__}: {exc}")], False, ["exception"])
    for n in sorted(want):
        if got.get(n) != want[n]:
            T = R.by_name[n]
            sig = {"kind": "wrong-status", "want": want[n], "got": got.get(n),
                   "no_output_files": not T.outset}
            viols.append(Violation(sig, f"target {n}: gwf says {got.get(n)}, make semantics say {want[n]} "
                                        f"(inputs {sorted(T.inset)}, outputs {sorted(T.outset)}, files {R.files})"))
    want_sub = sorted(n for n, _ in subs)
    if sorted(submitted) != want_sub:
        viols.append(Violation({"kind": "run-submits-other-set"},
                               f"run submitted {sorted(submitted)}, expected {want_sub}"))
    # metamorphic: grouping and spelling are irrelevant
    try:
        got2, _ = _gwf_status(_canonical(desc), vec, hashing, rec)
        if got2 != got:
            diff = {n: (got.get(n), got2.get(n)) for n in got if got.get(n) != got2.get(n)}
            viols.append(Violation({"kind": "shape-dependent"},
                                   f"status differs between the generated grouping and plain lists: {diff}"))
    except Exception as exc:  # noqa: BLE001
        viols.append(Violation({"kind": "exception-canonical", "type": type(exc).__name__}, str(exc)))

    nontrivial = False
    for n, s in want.items():
        T = R.by_name[n]
        if s in ("completed", "shouldrun") and vec.get(n, "unknown") in ("unknown", "completed") \
                and T.inset and T.outset and all(R.exists(p) for p in T.inset | T.outset) \
                and all(want[d] == "completed" for d in R.deps[n]):
            nontrivial = True
            ins = [R.files[p] for p in T.inset]
            outs = [R.files[p] for p in T.outset]
            if max(ins) == min(outs):
                labels.add("tie-youngest-in-oldest-out")
            if min(outs) < max(ins) <= max(outs) and len(outs) > 1:
                labels.add("input-newer-than-some-outputs")
            if hashing:
                labels.add("hashing-on-decisive")
    for t in desc["targets"]:
        if not model.T(t).outset and t["outputs"] not in ([], {"__t": []}):
            labels.add("empty-member-outputs")
    labels.add(case["kind"])
    return CaseResult(viols, nontrivial, sorted(labels))
