"""C11  Local pool: a task starts only after all its dependencies completed successfully."""

from vlib import poolprops
from vlib.runner import CaseResult

ID = "C11"
LEVEL = "exploration"
TECHNIQUE = ("Hypothesis-generated event histories on the real Scheduler under a virtual clock with fake "
             "processes; invariant checked at the instant of every spawn plus outcome model for skipped dependents")
RULE = ("case = core count + history of submit(deps on earlier tasks, also on already finished ones)/exit(rc)/"
        "cancel/advance-clock events; oracle: at every spawn each dependency's process has exited 0 and was "
        "neither cancelled nor timed out; a task that was never started and never cancelled ends failed-class "
        "iff a dependency ended failed-class, cancelled iff one ended cancelled (either if both). "
        "Non-trivial: some task has >=2 dependencies of which at least one did not complete successfully. "
        "Distinct = SHA-1 of canonical case JSON.")
ASSUMPTIONS = [
    "child processes are simulated (fake process objects); the harness decides exit order and codes",
    "the schedule is owned through the event loop and its virtual clock; quiescent points are where invariants are read",
    "bounds: <=4 cores, <=40 events, <=3 dependencies per task",
]
BUDGET = {
    "quick": {"examples": 1500, "wall_s": 60, "shards": 4},
    "thorough": {"examples": 30000, "wall_s": 1500, "shards": 16},
}

EXTRA_STRATEGIES = poolprops.real_extra(4, 64)
CASE_TIMEOUT_S = 200


def strategy(tier):
    return poolprops.history(max_steps=25 if tier == "quick" else 40, burst=False)


def run_case(case):
    viols, labels, info = poolprops.run(case, ID)
    labels = set(labels)
    if info["skipped_dependents"]:
        labels.add("skipped-dependent")
    if info["dep_not_ok_with_multi"]:
        labels.add("multi-dep-one-not-ok")
    return CaseResult(viols, info["dep_not_ok_with_multi"], sorted(labels))
