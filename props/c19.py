"""C19  Workflow definition: paths and names mean the same wherever gwf is run."""

import json
import os
import pathlib
import shutil
import tempfile
import unicodedata

from hypothesis import strategies as st

from vlib import model, project, scratch
from vlib.runner import CaseResult, Violation

ID = "C19"
LEVEL = "exploration"
TECHNIQUE = ("metamorphic testing over invoking directories (project root, nested directory, unrelated directory with "
             "-f absolute/relative) for workflows built with target / target_from_template / map, plus Hypothesis text "
             "strategies for candidate names and path values against must-accept / must-reject classes")
RULE = ("case kinds: 'where' = a workflow (2-5 targets) whose targets are created through Workflow.target, "
        "target_from_template (template with or without its own working directory) or map (default, string and function "
        "naming; items as strings, tuples, dicts), with the workflow working directory inherited from the defining file "
        "or given explicitly, invoked from the project root, a nested sub-directory, and an unrelated directory with "
        "-f <absolute> and -f <relative>; oracle: `gwf info` relations and `gwf status` are identical from every "
        "invoking directory and equal the model's resolution against the workflow directory, `.gwf/` and "
        "`.gwfconf.json` appear next to the workflow file and nothing is created in the invoking directory. "
        "'name' = a candidate target name from a text strategy (identifiers, leading digit, empty, embedded or trailing "
        "newline, spaces, punctuation, unicode); 'path' = a candidate path leaf (str, PathLike, empty, control "
        "characters, int/None/bytes): must-accept and must-reject classes only (dotted and non-ASCII names are not "
        "asserted); duplicate names rejected; map creates len(items) targets with distinct, reproducible names. "
        "Non-trivial: a template- or map-made target with relative paths invoked from another directory, or a "
        "name/path candidate in a must-reject class that resembles a valid one (trailing newline, control character). "
        ""
        "Also: consumers spell their producer's file as ./x, nested/../x, .//x; map over one-shot iterables; "
        "`-f lnk/../proj/workflow.py` where lnk is a directory symlink; `gwf touch` from one of the invoking "
        "directories (declared files made in the project, nothing in the invoking directory, all completed "
        "afterwards). "
        "Distinct = SHA-1 of canonical case JSON.")
ASSUMPTIONS = [
    "in-process CLI with the process working directory changed per invocation (sub-process cross-check in the thorough tier)",
    "names containing dots or non-ASCII letters and digits are not asserted either way",
]
BUDGET = {
    "quick": {"examples": 300, "wall_s": 100, "shards": 4},
    "thorough": {"examples": 5000, "wall_s": 1500, "shards": 16},
}

WF = r'''
import json, os
from gwf import Workflow, AnonymousTarget
from helpers19 import OUT_SUFFIX   # a module next to the workflow file (like the templates.py of `gwf init`)
HERE = os.path.dirname(os.path.realpath(__file__))
D = json.load(open(os.path.join(HERE, "wf19.json")))
kw = {}
if D.get("explicit_wd") is not None:
    kw["working_dir"] = os.path.join(HERE, D["explicit_wd"])
gwf = Workflow(**kw)


def tpl(inp, out, wd=None):
    kw = {}
    if wd is not None:
        kw["working_dir"] = os.path.join(HERE, wd)
    return AnonymousTarget(inputs=inp, outputs=out, options={}, spec="echo tpl\n", **kw)


def step(infile, outfile):
    return AnonymousTarget(inputs=[infile], outputs=[outfile], options={}, spec="echo map\n")


class Stepper:
    def __call__(self, infile, outfile):
        return step(infile, outfile)


for t in D["targets"]:
    how = t["how"]
    if how == "target":
        gwf.target(t["name"], inputs=t["inputs"], outputs=[o + OUT_SUFFIX for o in t["outputs"]]) << "echo direct\n"
    elif how == "template":
        gwf.target_from_template(t["name"], tpl(t["inputs"], t["outputs"], t.get("twd")))
    elif how == "map":
        items = t["items"]
        if t["item_form"] == "tuple":
            items = [tuple(i) for i in items]
        elif t["item_form"] == "dict":
            items = [{"infile": i[0], "outfile": i[1]} for i in items]
        fn = Stepper() if t.get("callable_class") else step
        if t.get("one_shot") == "iter":
            items = iter(items)        # map takes any iterable, also one that can be walked only once
        elif t.get("one_shot") == "gen":
            items = (i for i in items)
        if t["naming"] == "default":
            gwf.map(fn, items)
        elif t["naming"] == "string":
            gwf.map(fn, items, name=t["name"])
        else:
            gwf.map(fn, items, name=lambda idx, target: "%s_fn%d" % (t["name"], idx))
'''


@st.composite
def _where(draw):
    explicit = draw(st.sampled_from([None, None, "", "data"]))  # workflow working dir relative to the project
    base = explicit or ""
    targets = []
    n = draw(st.integers(2, 4))
    prev_out = None
    mapped = False
    for i in range(n):
        how = draw(st.sampled_from(["target", "template", "template", "map"]))
        if how == "map" and mapped:
            how = "template"
        name = f"T{i}"
        # a consumer may spell its producer's file differently (./x, d/../x): it is the same file
        inp = [draw(st.sampled_from(["", "", "./", "nested/../", ".//"])) + prev_out] if prev_out and draw(st.booleans()) \
            else [f"src{i}.txt"]
        out = f"out{i}.txt"
        if how == "map":
            mapped = True
            k = draw(st.integers(1, 3))
            items = [[f"src{i}_{j}.txt", f"out{i}_{j}.txt"] for j in range(k)]
            targets.append({"how": "map", "name": name, "items": items, "item_form": draw(st.sampled_from(["tuple", "dict"])),
                            "naming": draw(st.sampled_from(["default", "string", "function"])),
                            "callable_class": draw(st.booleans()),
                            "one_shot": draw(st.sampled_from([None, None, "iter", "gen"]))})
            prev_out = items[0][1]
        else:
            t = {"how": how, "name": name, "inputs": inp, "outputs": [out]}
            if how == "template":
                t["twd"] = draw(st.sampled_from([None, None, "tw"]))
            targets.append(t)
            prev_out = out if not t.get("twd") else None
    return {"kind": "where", "explicit_wd": explicit, "targets": targets,
            "missing_outputs": draw(st.booleans()), "touch_from": draw(st.integers(0, 5))}


NAME_MUST_ACCEPT = st.from_regex(r"[A-Za-z_][A-Za-z0-9_]{0,12}", fullmatch=True)
NAME_MUST_REJECT = st.one_of(
    st.just(""), st.from_regex(r"[0-9][A-Za-z0-9_]{0,5}", fullmatch=True),
    st.builds(lambda a, c, b: a + c + b, st.from_regex(r"[A-Za-z_][A-Za-z0-9_]{0,5}", fullmatch=True),
              st.sampled_from(["\n", " ", "\t", "-", "/", "$", ";", "*", "\x00", "\r", "\x0b", "\x1f", "'", '"', "(", ",", ":", "+"]),
              st.from_regex(r"[A-Za-z0-9_]{0,4}", fullmatch=True)),
    st.builds(lambda a: a + "\n", st.from_regex(r"[A-Za-z_][A-Za-z0-9_]{0,8}", fullmatch=True)),
    st.builds(lambda a: " " + a, st.from_regex(r"[A-Za-z_][A-Za-z0-9_]{0,8}", fullmatch=True)),
    st.builds(lambda a: "\n" + a, st.from_regex(r"[A-Za-z_][A-Za-z0-9_]{0,8}", fullmatch=True)),
)
PATH_TEXT = st.text(alphabet=st.characters(blacklist_categories=("Cc", "Cs")), min_size=1, max_size=12)
CTRL = st.sampled_from(["\x00", "\n", "\t", "\x1b", "\x7f", "\r", "\x85", "\x1f"])


@st.composite
def _name(draw):
    ok = draw(st.booleans())
    return {"kind": "name", "expect": "accept" if ok else "reject",
            "name": draw(NAME_MUST_ACCEPT if ok else NAME_MUST_REJECT)}


@st.composite
def _path(draw):
    cls = draw(st.sampled_from(["str", "pathlike", "empty", "ctrl", "ctrl-pathlike", "int", "none", "bytes"]))
    side = draw(st.sampled_from(["inputs", "outputs"]))
    shape = draw(st.sampled_from(["bare", "list", "dict", "nested"]))
    if cls in ("str", "pathlike"):
        txt = draw(PATH_TEXT)
    elif cls in ("ctrl", "ctrl-pathlike"):
        a, b = draw(PATH_TEXT), draw(st.text(alphabet="abc/.", max_size=4))
        txt = a + draw(CTRL) + b
    else:
        txt = ""
    return {"kind": "path", "cls": cls, "text": txt, "side": side, "shape": shape,
            "expect": "accept" if cls in ("str", "pathlike") else "reject"}


@st.composite
def _shared(draw):
    """One template object (or the template objects of one map call) used by several workflows."""
    return {"kind": "shared", "n_workflows": draw(st.integers(2, 3)), "template_wd": draw(st.sampled_from([None, None, "/tpl/dir"])),
            "order": draw(st.permutations([0, 1, 2])), "via_map": draw(st.booleans())}


PUNCT = ["\n", " ", "\t", "-", "/", "$", ";", "*", "\x00", "\r", "\x0b", "\x1f", "'", '"', "(", ")", ",", ":", "+", "=", "&",
         "|", "<", ">", "?", "!", "@", "#", "%", "^", "~", "`", "[", "]", "{", "}", "\\", "\x7f", "\x85", "\u00a0", "\u2028"]


def enumerate_cases(tier):
    """Every separator / control character at the start, in the middle and at the end of an otherwise valid name."""
    for c in PUNCT:
        for name in (c + "Ab", "A" + c + "b", "Ab" + c):
            yield {"kind": "name", "expect": "reject", "name": name}
    for name in ("A", "_", "_a1", "Ab_9", "Z" * 40, "a1b2"):
        yield {"kind": "name", "expect": "accept", "name": name}
    for code in ("none", "int", "zero", "float", "bytes", "tuple", "bool", "path", "list"):
        yield {"kind": "name", "expect": "reject", "name": "", "name_obj": code}
    for k in (2, 3):
        for naming in ("dupfn", "intfn", "lastdup"):
            yield {"kind": "map", "k": k, "form": "str", "naming": naming}


def strategy(tier):
    return st.one_of(_where(), _where(), _name(), _path(), st.just({"kind": "dupname"}), _mapcase(), _shared())


@st.composite
def _mapcase(draw):
    k = draw(st.integers(0, 6))
    return {"kind": "map", "k": k, "naming": draw(st.sampled_from(["default", "string", "function"])),
            "form": draw(st.sampled_from(["str", "tuple", "dict"]))}


# ------------------------------------------------------------------ where

def expected_desc(case):
    """The same workflow as a model description (paths relative to the project root)."""
    base = case["explicit_wd"] or ""
    ts = []
    for t in case["targets"]:
        if t["how"] == "map":
            for j, (i, o) in enumerate(t["items"]):
                if t["naming"] == "default":
                    nm = ("Stepper" if t.get("callable_class") else "step") + f"_{j}"
                elif t["naming"] == "string":
                    nm = f"{t['name']}_{j}"
                else:
                    nm = f"{t['name']}_fn{j}"
                ts.append({"name": nm, "inputs": [i], "outputs": [o], "wd": base or None, "spec": "echo map\n"})
        else:
            wd = t.get("twd") if t["how"] == "template" and t.get("twd") else base
            ts.append({"name": t["name"], "inputs": t["inputs"], "outputs": t["outputs"], "wd": wd or None,
                       "spec": "echo direct\n" if t["how"] == "target" else "echo tpl\n"})
    return {"targets": ts, "files": {}}


def run_where(case):
    viols, labels = [], {"where"}
    desc = expected_desc(case)
    R = model.Resolved(desc)
    base = tempfile.mkdtemp(prefix="gwf19", dir=scratch.base())
    base = os.path.realpath(base)
    proj_dir = os.path.join(base, "proj")
    other = os.path.join(base, "elsewhere", "deep")
    try:
        os.makedirs(proj_dir)
        os.makedirs(other)
        os.makedirs(os.path.join(proj_dir, "nested", "deeper"))
        for d in ("data", "tw"):
            os.makedirs(os.path.join(proj_dir, d), exist_ok=True)
        p = project.Project.__new__(project.Project)
        p.dir = proj_dir
        p.backend = "slurm"
        from vlib import simsched

        p.sim = simsched.SimCluster("slurm")
        p.tick = 0
        p._server = None
        p.desc = desc
        with open(os.path.join(proj_dir, "workflow.py"), "w") as f:
            f.write(WF)
        with open(os.path.join(proj_dir, "helpers19.py"), "w") as f:
            f.write("OUT_SUFFIX = ''\n")
        # modules of the same name in the directories gwf is invoked from must not shadow the workflow's own
        for d in (os.path.join(proj_dir, "nested", "deeper"), other):
            with open(os.path.join(d, "helpers19.py"), "w") as f:
                f.write("OUT_SUFFIX = '.decoy'\n")
        with open(os.path.join(proj_dir, "wf19.json"), "w") as f:
            json.dump({"explicit_wd": case["explicit_wd"], "targets": case["targets"]}, f)
        with open(os.path.join(proj_dir, ".gwfconf.json"), "w") as f:
            json.dump({"backend": "slurm"}, f)
        # every source exists; outputs exist (fresh) or are missing
        files = {}
        for q in sorted(R.unresolved):
            files[q] = 1
        for q in sorted(R.producers):
            files[q] = None if case["missing_outputs"] else 5
        p.set_files(files)
        R = model.Resolved(dict(desc, files=files))
        want_status, _ = R.plan(R.by_name.keys(), {})

        invocations = [
            ("root", proj_dir, []),
            ("nested", os.path.join(proj_dir, "nested", "deeper"), []),
            ("elsewhere-abs", other, ["-f", os.path.join(proj_dir, "workflow.py")]),
            ("elsewhere-rel", other, ["-f", os.path.relpath(os.path.join(proj_dir, "workflow.py"), other)]),
            # a relative -f with a directory part that only resolves against an ancestor of the invoking directory
            ("ancestor-rel", other, ["-f", "proj/workflow.py"]),
            ("nested-named", os.path.join(proj_dir, "nested", "deeper"), ["-f", "workflow.py:gwf"]),
            # `..` after a directory symlink: the operating system resolves lnk/.. to the parent of the directory the
            # link points to (here: the directory that holds the project), not to the invoking directory
            ("symlink-dotdot", other, ["-f", "lnk/../proj/workflow.py"]),
        ]
        os.makedirs(os.path.join(base, "sibling"), exist_ok=True)
        os.symlink(os.path.join(base, "sibling"), os.path.join(other, "lnk"))
        # decoys: files with the same base name closer to the invoking directories must not be picked up for
        # `-f proj/workflow.py`
        with open(os.path.join(base, "elsewhere", "workflow.py"), "w") as f:
            f.write("from gwf import Workflow\ngwf = Workflow()\ngwf.target('Decoy', inputs=[], outputs=[])\n")
        results = {}
        for tag, cwd, pre in invocations:
            pre = ["-b", "slurm"] + pre  # never fall back to guessing a backend (a wrong workflow file has no config)
            before = set(os.listdir(cwd)) | {"__pycache__"}
            # as with `python -m` / `python -c`, the invoking directory is on the module search path
            ri = p.gwf(pre + ["info"], cwd=cwd, syspath0=cwd, purge_root=base)
            rs = p.gwf(pre + ["status"], cwd=cwd, syspath0=cwd, purge_root=base)
            rc = p.gwf(pre + ["config", "set", "probe_" + tag.replace("-", "_"), "1"], cwd=cwd, syspath0=cwd, purge_root=base)
            after = set(os.listdir(cwd)) | {"__pycache__"}
            if cwd != proj_dir and after != before:
                viols.append(Violation({"kind": "created-in-invoking-dir", "from": tag},
                                       f"invoking from {tag} created {sorted(after - before)} there"))
            if ri.code != 0 or ri.crashed or rs.code != 0 or rs.crashed or rc.code != 0:
                bad = ri if (ri.code != 0 or ri.crashed) else rs if (rs.code != 0 or rs.crashed) else rc
                viols.append(Violation({"kind": "command-failed", "from": tag}, f"from {tag}: " + bad.brief()))
                continue
            try:
                info = json.loads(ri.out)
            except ValueError:
                viols.append(Violation({"kind": "info-not-json", "from": tag}, ri.out[:200]))
                continue
            rel = {n: (sorted(d["dependencies"]), sorted(d["dependents"])) for n, d in info.items()}
            results[tag] = (rel, rs.status_rows())
        want_rel = {n: (sorted(R.deps[n]), sorted(R.dependents[n])) for n in R.by_name}
        for tag, (rel, table) in results.items():
            if rel != want_rel:
                diff = {n: (rel.get(n), want_rel.get(n)) for n in set(rel) | set(want_rel) if rel.get(n) != want_rel.get(n)}
                viols.append(Violation({"kind": "graph-depends-on-invoking-dir" if tag != "root" else "graph-vs-model", "from": tag},
                                       f"from {tag}: (gwf, model) relations differ: {diff}"))
            if table != want_status:
                diff = {n: (table.get(n), want_status.get(n)) for n in set(table) | set(want_status) if table.get(n) != want_status.get(n)}
                viols.append(Violation({"kind": "status-depends-on-invoking-dir" if tag != "root" else "status-vs-model", "from": tag},
                                       f"from {tag}: (gwf, model) status differs: {diff}"))
        if not os.path.isdir(os.path.join(proj_dir, ".gwf")):
            viols.append(Violation({"kind": "state-dir-missing"}, ".gwf not next to the workflow file"))
        try:
            conf = json.load(open(os.path.join(proj_dir, ".gwfconf.json")))
        except (OSError, ValueError):
            conf = {}
        for tag, _, _ in invocations:
            if tag in results and ("probe_" + tag.replace("-", "_")) not in conf:
                viols.append(Violation({"kind": "config-not-project-local", "from": tag},
                                       f"config set from {tag} did not land in the project's .gwfconf.json: {conf}"))
        for d in (os.path.join(proj_dir, "nested"), os.path.join(proj_dir, "nested", "deeper"), other, os.path.dirname(other)):
            if os.path.exists(os.path.join(d, ".gwf")) or os.path.exists(os.path.join(d, ".gwfconf.json")):
                viols.append(Violation({"kind": "state-outside-project"}, d))
        # a command that writes files: `gwf touch` from one of the invoking directories makes the declared files of the
        # project - not files of the same names in the invoking directory - and everything is completed afterwards
        if not viols and case.get("touch_from") is not None:
            tag, cwd, pre = invocations[case["touch_from"] % len(invocations)]
            before = set(os.listdir(cwd)) | {"__pycache__"}
            rt = p.gwf(["-b", "slurm"] + pre + ["touch"], cwd=cwd, syspath0=cwd, purge_root=base)
            after = set(os.listdir(cwd)) | {"__pycache__"}
            labels.add("touch-from-" + tag)
            if rt.code != 0 or rt.crashed:
                viols.append(Violation({"kind": "touch-failed", "from": tag}, f"from {tag}: " + rt.brief()))
            else:
                if cwd != proj_dir and after != before:
                    viols.append(Violation({"kind": "created-in-invoking-dir", "from": tag, "cmd": "touch"},
                                           f"`gwf touch` from {tag} created {sorted(after - before)} in the invoking directory"))
                missing = sorted(q for q in R.producers if not os.path.exists(os.path.join(proj_dir, q)))
                if missing:
                    viols.append(Violation({"kind": "touch-did-not-make-the-declared-files", "from": tag},
                                           f"after `gwf touch` from {tag} these outputs (relative to the project) do not exist: {missing}"))
                rs2 = p.gwf(["-b", "slurm", "status"], cwd=proj_dir, syspath0=proj_dir, purge_root=base)
                bad = {n: s_ for n, s_ in rs2.status_rows().items() if s_ != "completed" and R.by_name.get(n) and R.by_name[n].outset}
                if rs2.code != 0 or bad:
                    viols.append(Violation({"kind": "not-completed-after-touch", "from": tag},
                                           f"after `gwf touch` from {tag}, status from the project root: {bad or rs2.brief()}"))
    finally:
        shutil.rmtree(base, ignore_errors=True)
    tm = any(t["how"] in ("template", "map") and not t.get("twd") for t in case["targets"])
    if tm:
        labels.add("template-or-map-relative")
    if case["explicit_wd"] is not None:
        labels.add("explicit-workflow-wd")
    return CaseResult(viols, tm, sorted(labels))


# ------------------------------------------------------------------ definition-time validation

def run_name(case):
    from gwf import Workflow

    w = Workflow(working_dir="/some/dir")
    name = case["name"]
    if case.get("name_obj"):
        # a name that is not a string at all (what a careless naming function returns)
        obj = {"none": None, "int": 3, "zero": 0, "float": 1.5, "bytes": b"Ab", "tuple": ("A", "b"), "bool": True,
               "path": pathlib.PurePosixPath("Ab"), "list": ["Ab"]}[case["name_obj"]]
        viols = []
        for how in ("target", "template"):
            w = Workflow(working_dir="/some/dir")
            try:
                if how == "target":
                    w.target(obj, inputs=[], outputs=[])
                else:
                    from gwf import AnonymousTarget

                    w.target_from_template(obj, AnonymousTarget(inputs=[], outputs=[], options={}))
                viols.append(Violation({"kind": "invalid-name-accepted", "class": "not-a-string", "how": how},
                                       f"target name {obj!r} ({type(obj).__name__}) was accepted by {how}"))
            except Exception:  # noqa: BLE001
                pass
        return CaseResult(viols, True, ["name-reject", "name-not-a-string"])
    try:
        w.target(name, inputs=[], outputs=[])
        accepted = True
        err = None
    except Exception as exc:  # noqa: BLE001
        accepted = False
        err = exc
    viols = []
    if case["expect"] == "accept" and not accepted:
        viols.append(Violation({"kind": "valid-name-rejected"}, f"{name!r}: {type(err).__name__}: {err}"))
    if case["expect"] == "reject" and accepted:
        cls = ("trailing-newline" if name.endswith("\n") else "empty" if not name else
               "leading-digit" if name[:1].isdigit() else "other")
        viols.append(Violation({"kind": "invalid-name-accepted", "class": cls}, f"target name {name!r} was accepted"))
    sneaky = case["expect"] == "reject" and (name.endswith("\n") or any(unicodedata.category(c) == "Cc" for c in name))
    return CaseResult(viols, sneaky or case["expect"] == "accept", ["name-" + case["expect"]])


def run_path(case):
    from gwf import Workflow

    cls = case["cls"]
    leaf = {"str": case["text"], "pathlike": pathlib.PurePosixPath(case["text"]), "empty": "",
            "ctrl": case["text"], "ctrl-pathlike": pathlib.PurePosixPath(case["text"]) if "\x00" not in case["text"] else case["text"],
            "int": 5, "none": None, "bytes": b"x.txt"}[cls]
    val = {"bare": leaf, "list": ["ok.txt", leaf], "dict": {"a": "ok.txt", "b": leaf}, "nested": [["ok.txt"], {"k": [leaf]}]}[case["shape"]]
    if case["shape"] == "bare" and cls in ("int", "none"):
        val = [leaf]
    w = Workflow(working_dir="/some/dir")
    kw = {"inputs": [], "outputs": []}
    kw[case["side"]] = val
    try:
        w.target("T", **kw)
        accepted, err = True, None
    except Exception as exc:  # noqa: BLE001
        accepted, err = False, exc
    viols = []
    if case["expect"] == "accept" and not accepted:
        viols.append(Violation({"kind": "valid-path-rejected", "cls": cls, "exc": type(err).__name__},
                               f"{cls} path {case['text']!r} in {case['shape']} {case['side']}: {type(err).__name__}: {err}"))
    if case["expect"] == "reject" and accepted:
        viols.append(Violation({"kind": "invalid-path-accepted", "cls": cls},
                               f"{cls} leaf {leaf!r} in {case['shape']} {case['side']} was accepted"))
    return CaseResult(viols, cls in ("ctrl", "ctrl-pathlike", "pathlike"), ["path-" + cls])


def run_dup(case):
    from gwf import Workflow

    w = Workflow(working_dir="/some/dir")
    w.target("Same", inputs=[], outputs=[])
    viols = []
    for how in ("target", "template"):
        try:
            if how == "target":
                w.target("Same", inputs=[], outputs=["x"])
            else:
                from gwf import AnonymousTarget

                w.target_from_template("Same", AnonymousTarget(inputs=[], outputs=[], options={}))
            viols.append(Violation({"kind": "duplicate-name-accepted", "how": how}, "second target named Same accepted"))
        except Exception:  # noqa: BLE001
            pass
    if len(w.targets) != 1:
        viols.append(Violation({"kind": "duplicate-name-state"}, str(list(w.targets))))
    return CaseResult(viols, True, ["dupname"])


def run_map(case):
    from gwf import AnonymousTarget, Workflow

    def step(infile, outfile="o"):
        return AnonymousTarget(inputs=[infile], outputs=[outfile + infile], options={}, spec="x")

    k = case["k"]
    items = {"str": [f"i{j}" for j in range(k)], "tuple": [(f"i{j}", f"o{j}") for j in range(k)],
             "dict": [{"infile": f"i{j}", "outfile": f"o{j}"} for j in range(k)]}[case["form"]]

    def build():
        w = Workflow(working_dir="/some/dir")
        if case["naming"] == "default":
            tl = w.map(step, items)
        elif case["naming"] == "string":
            tl = w.map(step, items, name="nm")
        elif case["naming"] == "dupfn":
            tl = w.map(step, items, name=lambda idx, t: "same")       # every item gets the same name
        elif case["naming"] == "lastdup":
            tl = w.map(step, items, name=lambda idx, t: f"f{min(idx, k - 2)}")  # the last two items collide
        elif case["naming"] == "intfn":
            tl = w.map(step, items, name=lambda idx, t: idx)          # not a string
        else:
            tl = w.map(step, items, name=lambda idx, t: f"f{idx}")
        return w, tl

    viols = []
    if case["naming"] in ("dupfn", "lastdup", "intfn"):
        # names that are not distinct identifier-like strings are rejected when the targets are defined
        try:
            w1, tl1 = build()
        except Exception:  # noqa: BLE001
            return CaseResult([], True, ["map", "naming-" + case["naming"]])
        return CaseResult([Violation({"kind": "map-accepted-bad-names", "naming": case["naming"]},
                                     f"map over {k} items with a naming function giving {[t.name for t in tl1]!r} was accepted; "
                                     f"the workflow holds {list(w1.targets)!r}")], True, ["map", "naming-" + case["naming"]])
    try:
        w1, tl1 = build()
        w2, tl2 = build()
    except Exception as exc:  # noqa: BLE001
        return CaseResult([Violation({"kind": "map-failed", "exc": type(exc).__name__}, str(exc))], True, ["map"])
    n1 = [t.name for t in tl1]
    if len(n1) != k or len(w1.targets) != k:
        viols.append(Violation({"kind": "map-count"}, f"{k} items gave {len(n1)} targets"))
    if len(set(n1)) != len(n1):
        viols.append(Violation({"kind": "map-names-not-distinct"}, str(n1)))
    if n1 != [t.name for t in tl2]:
        viols.append(Violation({"kind": "map-names-not-deterministic"}, f"{n1} vs {[t.name for t in tl2]}"))
    for t in tl1:
        if t.working_dir != "/some/dir":
            viols.append(Violation({"kind": "map-target-working-dir"}, f"{t.name}: working_dir {t.working_dir!r}, workflow's is /some/dir"))
            break
    return CaseResult(viols, k >= 2, ["map", "naming-" + case["naming"]])


def run_shared(case):
    """A template belongs to nobody: each workflow that instantiates it resolves its paths against its own
    working directory, whatever other workflows did with the same template object before."""
    from gwf import AnonymousTarget, Workflow

    dirs = ["/proj/a", "/proj/b", "/proj/c"][: case["n_workflows"]]
    kw = {"working_dir": case["template_wd"]} if case["template_wd"] else {}
    tpl = AnonymousTarget(inputs=["in.txt"], outputs=["out.txt"], options={}, spec="x", **kw)
    flows = {d: Workflow(working_dir=d) for d in dirs}
    viols = []
    for k in [i for i in case["order"] if i < len(dirs)]:
        d = dirs[k]
        if case["via_map"]:
            t = flows[d].map(lambda item: tpl, ["only"], name=f"M{k}")[0]
        else:
            t = flows[d].target_from_template(f"T{k}", tpl)
        want = case["template_wd"] or d
        got = [os.path.dirname(p) for p in t.flattened_inputs() + t.flattened_outputs()]
        if any(g != want for g in got) or t.working_dir != want:
            viols.append(Violation({"kind": "template-working-dir-leaks-between-workflows"},
                                   f"workflow {d}: target from a shared template resolves its files in {sorted(set(got))} "
                                   f"(working_dir {t.working_dir!r}), expected {want}"))
    if (tpl.working_dir or None) != case["template_wd"]:
        viols.append(Violation({"kind": "template-mutated"},
                               f"the caller's template object was modified: working_dir is now {tpl.working_dir!r}"))
    return CaseResult(viols, True, ["shared-template"])


def run_case(case):
    if case["kind"] == "shared":
        return run_shared(case)
    return {"where": run_where, "name": run_name, "path": run_path, "dupname": run_dup, "map": run_map}[case["kind"]](case)
