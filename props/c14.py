"""C14  Worker pool server survives misbehaving clients and keeps tasks and ids intact."""

import asyncio
import json

from hypothesis import strategies as st

from vlib import scratch, vpool
from vlib.runner import CaseResult, HarnessError, Violation

ID = "C14"
LEVEL = "fault_enumeration"
TECHNIQUE = ("protocol-level fault injection: Hypothesis-generated interleavings of healthy and misbehaving clients "
             "(malformed bytes, wrong-shape JSON, unknown kinds and ids, disconnects at every point incl. mid-line) fed "
             "chunk by chunk to the real Server.handle_connection on a virtual-time loop with fake processes; model of "
             "the task table as seen by a healthy client; coverage-guided atheris campaign over raw request streams; "
             "real-socket tier with `gwf -b local` as the healthy client")
RULE = ("case = core count + 4-30 steps over up to 3 concurrent connections: healthy enqueue(deps)/get_task_states/"
        "cancel/close requests (optionally split into chunks anywhere), misbehaving input from a catalogue of 30 payloads "
        "(non-UTF-8 bytes, truncated JSON, arrays/numbers/strings/null, missing or extra keys, wrong types for deps/script/"
        "tid/time_limit/working_dir, unknown __kind__, cancel or state query of unknown ids, 70 KiB line), EOF with or "
        "without a partial line, process exits and clock advances. After every step a fresh healthy connection asks "
        "get_task_states. Oracle: the reply lists exactly the ids handed out in task_enqueued replies, pairwise distinct, "
        "each in a state admissible for what happened to that task; a new healthy enqueue is accepted; after the drain "
        "every accepted task is final (C13's outcome model; accepted wrong-shape tasks must end failed-class); the core "
        "bound of C12 holds throughout. Non-trivial: a malformed or aborted request arrives between two healthy requests "
        "while a task is running. Real-socket tier: a real `gwf workers` process with a 2 s task, a dependent and an "
        "independent task submitted by `gwf run`; 2-6 misbehaving raw-socket clients (2-50 pipelined requests then hang-up "
        "without reading, hang-up in the middle of a reply, garbage, half a line kept open, cancel/state of unknown ids, "
        "wrong-shape enqueue, ~60000 requests whose replies are never read); then the pool process is alive, `gwf status` "
        "sub-processes are answered within 25 s, all three tasks ran to their end and show completed, a task submitted "
        "afterwards completes, the four tracked ids are distinct. Distinct = SHA-1 of canonical case JSON.")
ASSUMPTIONS = [
    "virtual tier: connections are in-memory asyncio.StreamReader objects and a recording writer; processes are fake",
    "`shutdown` is the documented way to stop the pool and is not part of the misbehaving alphabet",
    "an exception that ends only the offending connection's handler is acceptable behaviour",
]
BUDGET = {
    "quick": {"examples": 500, "wall_s": 100, "shards": 4},
    "thorough": {"examples": 12000, "wall_s": 1500, "shards": 16},
}

CASE_TIMEOUT_S = 25

BAD = [
    b"\xff\xfe\x00garbage\n", b"{\n", b"{\"__kind__\": \"enqueue_task\"\n", b"[]\n", b"[1, 2]\n", b"42\n", b"\"str\"\n",
    b"null\n", b"{}\n", b"{\"kind\": \"get_task_states\"}\n", b"{\"__kind__\": \"nope\"}\n", b"{\"__kind__\": 5}\n",
    b"{\"__kind__\": \"enqueue_task\"}\n", b"{\"__kind__\": \"enqueue_task\", \"name\": \"x\"}\n",
    b"{\"__kind__\": \"cancel_task\", \"tid\": 9999}\n", b"{\"__kind__\": \"cancel_task\", \"tid\": \"0\"}\n",
    b"{\"__kind__\": \"cancel_task\"}\n", b"{\"__kind__\": \"cancel_task\", \"tid\": null}\n",
    b"{\"__kind__\": \"get_task_state\", \"tid\": 9999}\n", b"{\"__kind__\": \"get_task_state\"}\n",
    b"{\"__kind__\": \"get_task_states\", \"extra\": 1}\n", b"\n", b"   \n", b"\x00\x00\x00\n",
    b"{\"__kind__\": \"cancel_task\", \"tid\": [0]}\n", b"{\"__kind__\": \"cancel_task\", \"tid\": -1}\n",
    b"{\"__kind__\": \"close\", \"x\": 1}\n", b"{\"__kind__\": \"get_task_states\"}{\"__kind__\": \"get_task_states\"}\n",
    b"x" * 70000 + b"\n", b"{\"__kind__\": \"enqueue_task\", \"name\": \"n\", \"script\": \"s\", \"working_dir\": \".\"}\n",
]
# wrong-shape enqueue requests that the server may accept; the task must then still become final
SHAPES = [
    {"deps": 5}, {"deps": "abc"}, {"deps": [9999]}, {"deps": {"a": 1}}, {"deps": [None]}, {"deps": [[0]]},
    {"script": 5}, {"script": None}, {"time_limit": "soon"}, {"time_limit": -1}, {"working_dir": 5},
    {"name": "a/b/c"}, {"name": 7}, {"extra_key": 1}, {"deps": None}, {"deps": ["0"]},
]


@st.composite
def _case(draw, tier):
    cores = draw(st.sampled_from([1, 2, 3]))
    step = st.one_of(
        st.tuples(st.just("enqueue"), st.integers(0, 2), st.lists(st.integers(0, 7), max_size=2), st.integers(0, 40)),
        st.tuples(st.just("enqueue"), st.integers(0, 2), st.lists(st.integers(0, 7), max_size=2), st.just(0)),
        st.tuples(st.just("states"), st.integers(0, 2), st.integers(0, 40)),
        st.tuples(st.just("cancel"), st.integers(0, 2), st.integers(0, 7)),
        st.tuples(st.just("close"), st.integers(0, 2)),
        st.tuples(st.just("bad"), st.integers(0, 2), st.integers(0, len(BAD) - 1)),
        st.tuples(st.just("bad"), st.integers(0, 2), st.integers(0, len(BAD) - 1)),
        st.tuples(st.just("shape"), st.integers(0, 2), st.integers(0, len(SHAPES) - 1)),
        st.tuples(st.just("eof"), st.integers(0, 2), st.sampled_from([b"", b"{\"__kind__\": \"get_ta", b"{", b"\xff"]).map(lambda b: b.decode("latin1"))),
        st.tuples(st.just("nearid"), st.integers(0, 2), st.integers(0, 7), st.sampled_from(["cancel_task", "get_task_state"]),
                  st.sampled_from(["plus-half", "minus-half", "string", "list", "plus-one-string", "negative"])),
        st.tuples(st.just("exit"), st.integers(0, 5), st.sampled_from([0, 0, 0, 1, 2])),
        st.tuples(st.just("exit"), st.integers(0, 5), st.just(0)),
        st.tuples(st.just("advance"), st.sampled_from([0.5, 1, 2, 11])),
    )
    steps = draw(st.lists(step, min_size=4, max_size=30 if tier == "thorough" else 20))
    return {"cores": cores, "steps": [list(s) for s in steps]}


def strategy(tier):
    return _case(tier)


def _real_extra():
    from vlib import realrogue

    return [{"name": "real_socket", "strategy": lambda tier: realrogue.case(),
             "examples": {"quick": 3, "thorough": 48}, "wall_s": 300}]


EXTRA_STRATEGIES = _real_extra()
CASE_TIMEOUT_S = 240


def run_real(case):
    """Real `gwf workers` process, `gwf -b local` sub-processes as the healthy client, raw sockets misbehaving."""
    from vlib import realrogue

    viols, labels, nt = realrogue.run(case)
    return CaseResult([Violation(sig, msg) for sig, msg in viols], nt, sorted(labels))


class Writer:
    def __init__(self):
        self.buf = b""
        self.closed = False

    def write(self, data):
        self.buf += data

    async def drain(self):
        return None

    def close(self):
        self.closed = True

    async def wait_closed(self):
        return None

    def is_closing(self):
        return self.closed

    def get_extra_info(self, *a, **k):
        return None

    def take_lines(self):
        *lines, rest = self.buf.split(b"\n")
        self.buf = rest
        return lines


class Conn:
    def __init__(self, w):
        self.reader = asyncio.StreamReader(loop=w.loop)
        self.writer = Writer()
        self.task = w.loop.create_task(w.server.handle_connection(self.reader, self.writer))
        self.eof = False
        self.dirty = False

    @property
    def alive(self):
        return not self.task.done() and not self.eof

    def feed(self, data, split=0):
        if split and 0 < split < len(data):
            return [data[:split], data[split:]]
        return [data]


def run_case(case):
    if case.get("kind") == "real-rogue":
        return run_real(case)
    w = vpool.World(case["cores"], with_server=True)
    viols = []
    labels = set()
    accepted = []  # tids from task_enqueued replies
    shape_tids = set()
    seen_final = {}
    malformed_while_running = False
    healthy_after = False

    def v(kind, msg, **sig):
        viols.append(Violation({"kind": kind, **sig}, f"step {w.step_no}: {msg}"))

    def send(conn, data, split=0):
        for chunk in conn.feed(data, split):
            conn.reader.feed_data(chunk)
            vpool.settle(w.loop)

    def replies(conn):
        out = []
        for line in conn.writer.take_lines():
            try:
                out.append(json.loads(line))
            except ValueError:
                v("server-sent-garbage", repr(line[:80]))
        return out

    def admissible(tm):
        if tm.cancel_hit:
            return {"CANCELLED"}
        if tm.start_failed:
            return {"FAILED", "KILLED"}
        if tm.proc is not None:
            if tm.proc.alive:
                return {"RUNNING"}
            if tm.exit_rc == 0 and not tm.log_failed and not tm.timed_out:
                return {"COMPLETED"}
            return {"FAILED", "KILLED", "RUNNING", "CANCELLED"} if tm.timed_out else {"FAILED"}
        return {"SUBMITTED", "FAILED", "KILLED", "CANCELLED", "RUNNING"}

    def probe(what):
        """A fresh healthy client asks for all task states."""
        c = Conn(w)
        send(c, b'{"__kind__": "get_task_states"}\n')
        rs = replies(c)
        send(c, b'{"__kind__": "close"}\n')
        if len(rs) != 1 or rs[0].get("__kind__") != "task_states":
            v("healthy-client-not-answered", f"{what}: get_task_states answered with {rs}", when=what.split()[0])
            return
        tasks = rs[0].get("tasks", {})
        got = set(tasks)
        want = {str(t) for t in accepted}
        if got != want:
            v("task-table-ids", f"{what}: state query lists ids {sorted(got)}, accepted ids are {sorted(want)}")
        for tid in accepted:
            tm = w.by_tid.get(tid)
            st_ = tasks.get(str(tid))
            if tm is None or st_ is None or tid in shape_tids:
                continue
            adm = admissible(tm)
            if st_ not in adm:
                v("state-under-wrong-id", f"{what}: task {tid} reported {st_}, admissible {sorted(adm)} ({w.cause(tm)})")

    conns = {}
    try:
        for step in case["steps"]:
            w.step_no += 1
            op = step[0]
            if op in ("enqueue", "states", "cancel", "close", "bad", "shape", "eof", "raw", "nearid"):
                cid = step[1]
                c = conns.get(cid)
                healthy_op = op in ("enqueue", "states", "cancel", "close")
                # a healthy request comes from a client that has not misbehaved on this connection
                if c is None or not c.alive or (healthy_op and c.dirty):
                    c = conns[cid] = Conn(w)
                    vpool.settle(w.loop)
                if not healthy_op:
                    c.dirty = True
            running_now = any(p.alive for p in w.procs)
            if op == "enqueue":
                idx = len(w.tasks)
                deps = []
                real = [t for t in accepted if t in w.by_tid and t not in shape_tids]
                for i in step[2]:
                    if real:
                        d = real[i % len(real)]
                        if d not in deps:
                            deps.append(d)
                script = f"# wire task {w.step_no}\nexit 0"
                tm = vpool.TaskModel(idx, None, f"w{w.step_no}", deps, None, False, b"", b"")
                w.by_script[script] = tm
                msg = {"__kind__": "enqueue_task", "name": tm.name, "script": script, "time_limit": None,
                       "working_dir": w.dir, "deps": deps}
                send(c, (json.dumps(msg) + "\n").encode(), step[3])
                rs = replies(c)
                if len(rs) != 1 or rs[0].get("__kind__") != "task_enqueued" or "tid" not in rs[0]:
                    v("healthy-enqueue-refused", f"enqueue answered with {rs}")
                    del w.by_script[script]
                else:
                    tid = rs[0]["tid"]
                    if tid in accepted:
                        v("duplicate-task-id", f"id {tid!r} handed out twice")
                    accepted.append(tid)
                    tm.tid = tid
                    w.tasks.append(tm)
                    w.by_tid[tid] = tm
                    if malformed_while_running:
                        healthy_after = True
            elif op == "states":
                send(c, b'{"__kind__": "get_task_states"}\n', step[2])
                rs = replies(c)
                if len(rs) != 1 or rs[0].get("__kind__") != "task_states":
                    v("healthy-client-not-answered", f"get_task_states answered with {rs}", when="own")
                elif malformed_while_running:
                    healthy_after = True
            elif op == "cancel":
                real = [t for t in accepted if t in w.by_tid]
                if real:
                    tid = real[step[2] % len(real)]
                    tm = w.by_tid[tid]
                    before = w.state(tid)
                    send(c, (json.dumps({"__kind__": "cancel_task", "tid": tid}) + "\n").encode())
                    if before in ("SUBMITTED", "RUNNING"):
                        tm.cancel_hit = True
                        if tm.timed_out:
                            tm.cancel_after_timeout = True
            elif op == "nearid":
                # a request naming an id that is *not* an accepted id but looks like one: no accepted task may be touched
                real = [t for t in accepted if t in w.by_tid and isinstance(t, int)]
                if real:
                    tid = real[step[2] % len(real)]
                    bogus = {"plus-half": tid + 0.5, "minus-half": tid - 0.5, "string": f" {tid} ", "list": [tid],
                             "plus-one-string": str(max(accepted, key=lambda x: x if isinstance(x, int) else 0) + 1),
                             "negative": -tid}[step[4]]
                    send(c, (json.dumps({"__kind__": step[3], "tid": bogus}) + "\n").encode())
                    for r in replies(c):
                        if r.get("__kind__") == "task_state" and r.get("state") not in (None, "UNKNOWN"):
                            v("state-of-another-id", f"get_task_state for the unknown id {bogus!r} answered {r.get('state')!r} "
                                                     f"(the state of task {tid})")
                    labels.add("near-id")
                    if running_now:
                        malformed_while_running = True
            elif op == "close":
                send(c, b'{"__kind__": "close"}\n')
                conns.pop(cid, None)
            elif op == "bad":
                send(c, BAD[step[2]])
                c.writer.take_lines()
                labels.add("malformed")
                if running_now:
                    malformed_while_running = True
            elif op == "raw":
                # arbitrary bytes (from the coverage-guided campaign); latin-1 carries every byte value
                data = step[2].encode("latin1")
                # a line that parses as an enqueue request with a string script may be accepted: give it a model
                for line in data.split(b"\n"):
                    try:
                        m = json.loads(line)
                        if isinstance(m, dict) and isinstance(m.get("script"), str) and m["script"] not in w.by_script:
                            w.by_script[m["script"]] = vpool.TaskModel(len(w.tasks), None, str(m.get("name")), [], None, False, b"", b"")
                    except ValueError:
                        pass
                send(c, data)
                for r in replies(c):
                    if isinstance(r, dict) and r.get("__kind__") == "task_enqueued":
                        tid = r.get("tid")
                        if tid in accepted:
                            v("duplicate-task-id", f"id {tid!r} handed out twice")
                        accepted.append(tid)
                        shape_tids.add(tid)
                labels.add("raw-bytes")
                if running_now:
                    malformed_while_running = True
            elif op == "shape":
                script = f"# shape task {w.step_no}\nexit 0"
                msg = {"__kind__": "enqueue_task", "name": f"s{w.step_no}", "script": script, "time_limit": None,
                       "working_dir": w.dir, "deps": []}
                msg.update(SHAPES[step[2]])
                tm = vpool.TaskModel(len(w.tasks), None, str(msg["name"]), [], None, False, b"", b"")
                if isinstance(msg.get("script"), str):
                    w.by_script[msg["script"]] = tm
                send(c, (json.dumps(msg) + "\n").encode())
                rs = replies(c)
                labels.add("wrong-shape")
                if running_now:
                    malformed_while_running = True
                for r in rs:
                    if r.get("__kind__") == "task_enqueued":
                        tid = r["tid"]
                        if tid in accepted:
                            v("duplicate-task-id", f"id {tid!r} handed out twice")
                        accepted.append(tid)
                        shape_tids.add(tid)
                        tm.tid = tid
                        w.by_tid[tid] = tm
            elif op == "eof":
                if step[2]:
                    c.reader.feed_data(step[2].encode("latin1"))
                c.reader.feed_eof()
                c.eof = True
                vpool.settle(w.loop)
                labels.add("disconnect")
                if running_now:
                    malformed_while_running = True
                conns.pop(cid, None)
            elif op == "exit":
                w.exit_proc(step[1], step[2])
            elif op == "advance":
                w.advance(step[1])
            vpool.settle(w.loop)
            if w.harness_errors:
                raise HarnessError(w.harness_errors[0])
            probe(f"after {op}")
            w.check_point(seen_final)
            if viols or w.violations:
                break
        if not viols and not w.violations:
            # a new task is still accepted, then everything runs to its end
            c = Conn(w)
            script = "# final probe task\nexit 0"
            tm = vpool.TaskModel(len(w.tasks), None, "final", [], None, False, b"", b"")
            w.by_script[script] = tm
            send(c, (json.dumps({"__kind__": "enqueue_task", "name": "final", "script": script, "time_limit": None,
                                 "working_dir": w.dir, "deps": []}) + "\n").encode())
            rs = replies(c)
            if len(rs) != 1 or rs[0].get("__kind__") != "task_enqueued":
                v("pool-no-longer-accepts-tasks", f"final enqueue answered with {rs}")
            else:
                tm.tid = rs[0]["tid"]
                if tm.tid in accepted:
                    v("duplicate-task-id", f"id {tm.tid!r} handed out twice")
                accepted.append(tm.tid)
                w.tasks.append(tm)
                w.by_tid[tm.tid] = tm
            w.drain(seen_final)
            w.final_checks()
            for tid in shape_tids:
                st_ = w.state(tid)
                if st_ not in ("FAILED", "KILLED", "COMPLETED", "CANCELLED"):
                    v("accepted-wrong-shape-task-never-final", f"task {tid} accepted from a wrong-shape request is still {st_}",
                      stuck=st_)
            probe("after drain")
        for prop, sig, msg in w.violations:
            if prop in ("C12", "C13", "C14", "C11"):
                viols.append(Violation({"prop": prop, **sig}, msg))
    finally:
        w.close()
    return CaseResult(viols, malformed_while_running and healthy_after, sorted(labels))


def extra_phases(tier, seed, shard, nshards, stats, run_one):
    """Coverage-guided tier.  quick: the committed fuzz corpus is decoded and replayed in-process (shard 0).
    thorough: an atheris/libFuzzer campaign per shard (first 8 shards), seeded with that corpus; every input
    the campaign flags is replayed through run_case here, so a violation gets the usual replay file."""
    import glob
    import os
    import re
    import shutil
    import subprocess
    import sys
    import tempfile

    from vlib import fuzz14
    from vlib.runner import VERIF

    cdir = os.path.join(VERIF, "corpus", "C14", "fuzz")
    files = sorted(glob.glob(os.path.join(cdir, "*")))
    if tier == "quick":
        if shard == 0:
            n = 0
            for f in files:
                with open(f, "rb") as fh:
                    case = fuzz14.decode(fh.read())
                n += 1
                if run_one(case):
                    break
            stats.extra["fuzz_corpus_replayed"] = n
        return
    if shard >= 8:
        return
    tmp = tempfile.mkdtemp(prefix="gwffuzz", dir=scratch.base())
    try:
        corpus, out = os.path.join(tmp, "corpus"), os.path.join(tmp, "out")
        os.makedirs(corpus)
        os.makedirs(out)
        for f in files:
            shutil.copy(f, corpus)
        secs = int(os.environ.get("VERIF_FUZZ_S", "420"))
        env = dict(os.environ)
        p = subprocess.run([sys.executable, os.path.join(VERIF, "vlib", "fuzz14.py"), corpus, out,
                            f"-max_total_time={secs}", f"-seed={seed * 1000 + shard + 1}", "-max_len=512",
                            f"-artifact_prefix={tmp}/"], cwd=tmp, env=env, capture_output=True, text=True,
                           timeout=secs + 300)
        m = re.search(r"Done (\d+) runs", p.stdout + p.stderr)
        stats.extra["fuzz_execs"] = stats.extra.get("fuzz_execs", 0) + (int(m.group(1)) if m else 0)
        stats.extra["fuzz_campaigns"] = stats.extra.get("fuzz_campaigns", 0) + 1
        if "No module named 'atheris'" in (p.stdout + p.stderr):
            stats.notes.append("atheris not installed: coverage-guided tier skipped")
        for vf in sorted(glob.glob(os.path.join(out, "violation-*.json"))):
            with open(vf) as fh:
                case = json.load(fh)["case"]
            if run_one(case):
                break
    finally:
        shutil.rmtree(tmp, ignore_errors=True)
