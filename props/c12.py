"""C12  Local pool never runs more tasks at once than the configured cores."""

from vlib import poolprops
from vlib.runner import CaseResult

ID = "C12"
LEVEL = "exploration"
TECHNIQUE = ("Hypothesis-generated event histories (submit/exit/cancel/clock/log faults) driving the real "
             "Scheduler on a virtual-time event loop with fake child processes; invariant oracle")
RULE = ("case = core count 1-4 + a history of submit(deps,time limit,start failure)/process exit(rc)/cancel/"
        "advance-clock/remove-or-restore-log-dir events interpreted against gwf.backends.local.Scheduler on a "
        "virtual-time loop; invariants: live fake processes <= cores at every spawn and every quiescent point, "
        "and no idle core while a task with completed dependencies waits (outside kill sequences). "
        "Non-trivial: the history contains a skipped dependent, a cancel that hit a waiting or running task, "
        "a time-out or a start failure, AND more than `cores` tasks were submitted afterwards or overall so "
        "the bound is actually contended (max simultaneous live == cores). Real-process tiers: random task DAGs on "
        "a real `gwf workers` pool of 1-3 workers (peak of simultaneously alive task processes <= workers), and pools "
        "with as many workers as CPUs, a few more, and 5, given as many independent 4-second tasks as workers by one "
        "`gwf run`: every task starts before the first one ends. Distinct = SHA-1 of canonical case JSON.")
ASSUMPTIONS = [
    "child processes are simulated: exit happens only when the harness says so, kill()/terminate() end the fake process at the next loop iteration",
    "the pool is single-threaded asyncio, so owning the event loop and its clock owns the schedule",
    "bounds: <=4 cores, <=40 events per history (virtual tier); up to CPUs+5 workers in the real tier",
]
BUDGET = {
    "quick": {"examples": 1500, "wall_s": 60, "shards": 4},
    "thorough": {"examples": 30000, "wall_s": 1500, "shards": 16},
}

EXTRA_STRATEGIES = poolprops.real_extra(4, 64) + poolprops.wide_extra()
CASE_TIMEOUT_S = 200


def strategy(tier):
    return poolprops.history(max_steps=25 if tier == "quick" else 40)


def run_case(case):
    viols, labels, info = poolprops.run(case, ID)
    disturbed = (info["skipped_dependents"] or info["cancel_hits"] or info["timeouts"]
                 or info["start_failures"])
    contended = info["max_live"] >= case["cores"] and info["n_tasks"] > case["cores"]
    labels = set(labels)
    if disturbed:
        labels.add("disturbed")
    if contended:
        labels.add("contended")
    return CaseResult(viols, bool(disturbed and contended), sorted(labels))
