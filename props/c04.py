"""C04  Validation accepts exactly well-formed workflows and names the defect otherwise."""

from hypothesis import strategies as st

from vlib import api, gen, model
from vlib.runner import CaseResult, Violation

ID = "C04"
LEVEL = "exploration"
TECHNIQUE = ("Hypothesis-generated free-form target sets with planted cycles/duplicate producers/missing sources and "
             "long chains; validity predicate with a set of admissible error kinds (independent Kahn-style cycle "
             "detection); CLI side-effect snapshots on invalid workflows")
RULE = ("case kinds: 'free' = 1-6 (thorough 9) targets with arbitrary input/output subsets of a shared file pool "
        "(self-loops, k-cycles, duplicate producers through different spellings, missing sources all arise), "
        "'planted' = a valid workflow plus one planted defect (k-cycle placed after an acyclic first-defined component, "
        "self-loop, duplicate producer via another spelling, missing source), 'chain' = dependency chains/fans of "
        "50-3000 targets defined forward, reversed or shuffled. Oracle: Graph.from_targets raises nothing iff the "
        "model's set of applicable defects is empty, otherwise the raised error kind is a member of that set; on an "
        "invalid workflow every CLI command exits non-zero and leaves files, state and the simulated scheduler's "
        "mutating-command log unchanged; valid deep/wide workflows build, report status, dry-run, run and touch without "
        "an exception and agree with the model. Non-trivial: >=3 targets and (exactly one defect kind applies, or "
        "valid with dependency depth >=3). "
        "Also: the commands restricted to a named target or pattern (cancel/touch/clean/status/info <name>) "
        "with a tracked job present; PathLike spellings; chains with a collector target reading every step "
        "and names sorting against the chain; invocation styles of project.Project. "
        "Distinct = SHA-1 of canonical case JSON.")
ASSUMPTIONS = [
    "one target never lists the same file both as input and output unless a self-loop is intended (that is a cycle by the statement)",
    "chains up to 3000 targets (quick: 1500)",
]
BUDGET = {
    "quick": {"examples": 1500, "wall_s": 90, "shards": 4},
    "thorough": {"examples": 20000, "wall_s": 1500, "shards": 16},
}


@st.composite
def _planted(draw, tier):
    desc = draw(gen.wellformed(max_targets=6, max_files=9, spellings=(0, 1, 2, 4, 5, 7, 8, 9), shapes=(0, 2, 4, 5),
                               allow_missing_outputs=True, min_targets=2))
    kind = draw(st.sampled_from(["cycle", "selfloop", "dup", "missing"]))
    ts = desc["targets"]
    files = desc["files"]
    if kind == "cycle":
        k = draw(st.integers(2, 5))
        # appended after everything else: unreachable from the first-defined targets
        for i in range(k):
            ts.append({"name": f"cy{i}", "inputs": [f"cyc/c{(i - 1) % k}"], "outputs": [f"./cyc/c{i}"],
                       "spec": "true\n", "wd": None})
            files[f"cyc/c{i}"] = draw(st.sampled_from([None, 1]))
        if draw(st.booleans()):
            ts[:] = list(draw(st.permutations(ts)))
    elif kind == "selfloop":
        ts.append({"name": "self1", "inputs": ["loop/x"], "outputs": ["loop/../loop/x"], "spec": "true\n", "wd": None})
        files["loop/x"] = draw(st.sampled_from([None, 1]))
    elif kind == "dup":
        owners = [(t, p) for t in ts for p in model.T(t).outset]
        if owners:
            t, p = draw(st.sampled_from(owners))
            ts.append({"name": "dupper", "inputs": [], "outputs": [gen.spell(p, draw(st.sampled_from([0, 1, 2, 3, 4, 5, 7, 8, 9])))],
                       "spec": "true\n", "wd": None})
        else:
            ts.append({"name": "d1", "inputs": [], "outputs": ["dd/x"], "spec": "true\n", "wd": None})
            ts.append({"name": "d2", "inputs": [], "outputs": ["./dd/x"], "spec": "true\n", "wd": None})
    else:
        ts.append({"name": "needs", "inputs": ["ghost/src", *([] if draw(st.booleans()) else [sorted(files)[0]])],
                   "outputs": ["ghost/out"], "spec": "true\n", "wd": None})
        files["ghost/src"] = None
        if files.get(sorted(files)[0]) is None and sorted(files)[0] not in model.Resolved(desc).producers:
            files[sorted(files)[0]] = 1
    return {"kind": "planted", "planted": kind, "desc": desc}


@st.composite
def _chain(draw, tier):
    hi = 3000 if tier == "thorough" else 1500
    n = draw(st.sampled_from([50, 300, 600, 1100, hi]))
    order = draw(st.sampled_from(["forward", "reverse", "shuffle"]))
    fan = draw(st.sampled_from([0, 0, 50, 500]))
    state = draw(st.sampled_from(["fresh", "done", "broken-middle"]))
    return {"kind": "chain", "n": n, "order": order, "fan": fan, "state": state,
            "perm_seed": draw(st.integers(0, 10**6)), "collector": draw(st.booleans()),
            "names": draw(st.sampled_from(["asc", "desc"]))}


def chain_desc(c):
    n = c["n"]
    ts, files = [], {"c/src": 1}
    # names: the steps are numbered along the chain, or against it (then the names sort against the dependency order)
    def nm(i):
        return f"c{i}" if c.get("names") != "desc" else f"step_{n - 1 - i:05d}"

    for i in range(n):
        ts.append({"name": nm(i), "inputs": ["c/src"] if i == 0 else [f"c/o{i - 1}"], "outputs": [f"c/o{i}"],
                   "spec": "true\n", "wd": None})
        tick = None if c["state"] == "fresh" else 2 + i
        if c["state"] == "broken-middle" and i == n // 2:
            tick = None
        files[f"c/o{i}"] = tick
    for j in range(c["fan"]):
        ts.append({"name": f"w{j}", "inputs": [f"c/o{n - 1}"], "outputs": [f"c/w{j}"], "spec": "true\n", "wd": None})
        files[f"c/w{j}"] = None
    if c.get("collector"):
        # a final report that reads the result of every step
        ts.append({"name": "report", "inputs": [f"c/o{i}" for i in range(n)], "outputs": ["c/report"], "spec": "true\n", "wd": None})
        files["c/report"] = None
    if c["order"] == "reverse":
        ts.reverse()
    elif c["order"] == "shuffle":
        # deterministic permutation from the drawn integer (no RNG of our own)
        k = c["perm_seed"]
        ts.sort(key=lambda t: (hash_name(t["name"], k)))
    return {"targets": ts, "files": files}


def hash_name(name, k):
    import hashlib

    return hashlib.sha1(f"{k}:{name}".encode()).hexdigest()


def strategy(tier):
    big = tier == "thorough"
    free = gen.freeform(max_targets=9 if big else 6, spellings=(0, 1, 2, 4, 7, 8, 9)).map(lambda d: {"kind": "free", "desc": d})
    parts = [free] * 6 + [_planted(tier)] * 5

    @st.composite
    def with_relwd(draw):
        c = draw(st.one_of(*parts))
        # some targets are given their working directory as a path relative to the invoking directory
        if draw(st.sampled_from([False, False, True])):
            c["relwd"] = [draw(st.booleans()) for _ in c["desc"]["targets"]]
        return c

    return with_relwd()


def enumerate_cases(tier):
    """Deep and wide valid workflows: a small finite family, enumerated completely."""
    ns = [50, 300, 600, 1100, 1500] + ([2200, 3000] if tier == "thorough" else [])
    for n in ns:
        for order in ("forward", "reverse", "shuffle"):
            for fan in (0, 300):
                for state in ("fresh", "done", "broken-middle"):
                    yield {"kind": "chain", "n": n, "order": order, "fan": fan, "state": state, "perm_seed": n + fan}
    for n in (300, 1500) + ((3000,) if tier == "thorough" else ()):
        for names in ("asc", "desc"):
            for state in ("fresh", "done"):
                yield {"kind": "chain", "n": n, "order": "forward", "fan": 0, "state": state, "perm_seed": n, "collector": True,
                       "names": names}


def run_case(case):
    if case["kind"] == "chain":
        return run_chain(case)
    desc = case["desc"]
    R = model.Resolved(desc)
    defects = R.defects()
    viols, labels = [], {case["kind"]}
    raised = None
    api_desc = desc
    if any(case.get("relwd", [])):
        flags = list(case["relwd"]) + [False] * len(desc["targets"])
        api_desc = dict(desc, targets=[dict(t, relwd=bool(f)) for t, f in zip(desc["targets"], flags)])
        labels.add("relative-working-dir")
    try:
        api.build_graph(api_desc)
    except Exception as exc:  # noqa: BLE001
        raised = api.exc_kind(exc)
        msg = f"{type(exc).__name__}: {exc}"
    if not defects and raised is not None:
        viols.append(Violation({"kind": "valid-rejected", "raised": raised}, f"well-formed workflow rejected: {msg}"))
    elif defects and raised is None:
        viols.append(Violation({"kind": "invalid-accepted", "defects": sorted(defects)},
                               f"workflow with defect(s) {sorted(defects)} was accepted"))
    elif defects and raised not in defects:
        viols.append(Violation({"kind": "wrong-error", "raised": raised, "defects": sorted(defects)},
                               f"raised {raised} but only {sorted(defects)} apply: {msg}"))
    for d in defects:
        labels.add("defect-" + d)
    if not defects:
        labels.add("valid")
    if "cycle" in defects:
        first = desc["targets"][0]["name"]
        cyc_nodes = _cycle_nodes(R)
        if not (R.cone([first]) & cyc_nodes):
            labels.add("cycle-unreachable-from-first")
        if any(n in R.deps[n] for n in R.deps):
            labels.add("self-loop")
    if defects and not viols and not any(case.get("relwd", [])) and int(digest_of(case), 16) % 3 == 0:
        # how the commands are invoked varies with the case (see project.Project)
        styles = (None, {"plan": [1, 0, 2]}, None, {"plan": [2, 1], "obj": "analysis"}, {"plan": [0, 1], "wf_link": True})
        viols += cli_side_effects(desc, defects, styles[int(digest_of(case), 16) // 3 % len(styles)])
        labels.add("cli-side-effects")
    if not defects and not viols and not any(case.get("relwd", [])) and int(digest_of(case), 16) % 2 == 0:
        viols += cli_valid(desc)
        labels.add("cli-valid")
    nt = len(desc["targets"]) >= 3 and (len(defects) == 1 or (not defects and R.depth() >= 3))
    return CaseResult(viols, nt, sorted(labels))


def digest_of(case):
    from vlib.runner import digest

    return digest(case)


def cli_valid(desc):
    """A well-formed workflow is accepted by the commands too, on a real tree (the oldest files carry the epoch)."""
    from vlib import project

    viols = []
    with project.Project(desc, backend="slurm") as proj:
        proj.base_mtime = -10  # tick 1 -> mtime 0.0
        proj.set_files({p: t for p, t in desc["files"].items()})
        for args in (["status"], ["info"], ["run", "--dry-run"]):
            r = proj.gwf(args)
            if r.code != 0 or r.crashed:
                viols.append(Violation({"kind": "valid-workflow-rejected-by-command", "cmd": args[0]},
                                       f"`gwf {' '.join(args)}` on a well-formed workflow (ticks {desc['files']}; tick 1 is mtime 0): {r.brief()}"))
                break
    return viols


MSG_KIND = (("provided by targets", "multiple-providers"), ("depends on itself", "cycle"),
            ("does not exist and is not provided", "unresolved-input"))


def cli_side_effects(desc, defects, invoke=None):
    """On an invalid workflow every command exits non-zero, names a defect that applies, and changes nothing."""
    from vlib import project

    viols = []
    with project.Project(desc, backend="slurm", invoke=invoke) as proj:
        proj.set_files({p: t for p, t in desc["files"].items()})
        import os

        os.makedirs(proj.path(".gwf/logs"), exist_ok=True)
        for fn in ("Gone.stdout", "Gone.stderr", desc["targets"][0]["name"] + ".stdout"):
            with open(proj.path(".gwf/logs/" + fn), "w") as f:
                f.write("log of an earlier run\n")
        first = desc["targets"][0]["name"]
        with open(proj.path(".gwf/slurm-backend-tracked.json"), "w") as f:
            f.write('{"%s": "4242"}' % first)  # an earlier run left a job behind: a cancel would reach the scheduler
        before = proj.snapshot()
        for args in (["status"], ["run"], ["run", "--dry-run"], ["clean", "--all", "-f"], ["touch"], ["cancel", "-f"],
                     ["info"], ["status", "-f", "summary"], ["run", first],
                     # the same commands restricted to a named target or a pattern
                     ["cancel", first], ["cancel", first[:1] + "*"], ["touch", first], ["clean", first], ["status", first],
                     ["info", first], ["clean", "--all", first[:1] + "*"]):
            r = proj.gwf(args, input="y\n")
            if r.code == 0:
                viols.append(Violation({"kind": "command-succeeded-on-invalid-workflow", "cmd": args[0]},
                                       f"`gwf {' '.join(args)}` exits 0 on a workflow with {sorted(defects)}"))
            else:
                # the kind of error is decided at the API tier (exception class); here: a clean error, not a crash,
                # and if the message is one of the three known wordings it must be one that applies
                named = {k for frag, k in MSG_KIND if frag in r.err}
                if r.crashed or (named and not (named & defects)):
                    viols.append(Violation({"kind": "error-does-not-name-applicable-defect", "cmd": args[0]},
                                           f"`gwf {' '.join(args)}`: {r.brief()}; applicable {sorted(defects)}"))
            d = proj.snap_diff(before, proj.snapshot())
            if d:
                viols.append(Violation({"kind": "side-effect-on-invalid-workflow", "cmd": " ".join(args[:2])},
                                       f"`gwf {' '.join(args)}` on an invalid workflow changed {[(k, 'removed' if y is None else 'changed') for k, x, y in d][:4]}"))
                before = proj.snapshot()
            if proj.sim.mutating_log():
                viols.append(Violation({"kind": "scheduler-command-on-invalid-workflow", "cmd": args[0]},
                                       str([e["cmd"] for e in proj.sim.mutating_log()])))
                proj.sim.log.clear()
            if viols:
                break
    return viols


def _cycle_nodes(R):
    indeg = {n: len(ds) for n, ds in R.deps.items()}
    ready = [n for n, k in indeg.items() if k == 0]
    alive = set(indeg)
    while ready:
        n = ready.pop()
        alive.discard(n)
        for m in R.dependents[n]:
            indeg[m] -= 1
            if indeg[m] == 0:
                ready.append(m)
    return alive


def _plain_stack(fn):
    """Run fn on a fresh thread with the interpreter's default recursion limit, i.e. with the
    stack head-room a real `gwf` process has (Hypothesis raises the limit while it runs a test,
    which would make deep-recursion findings differ between generation and replay)."""
    import sys
    import threading

    box = {}

    def work():
        old = sys.getrecursionlimit()
        sys.setrecursionlimit(1000)
        try:
            box["v"] = fn()
        except BaseException as exc:  # noqa: BLE001
            box["e"] = exc
        finally:
            sys.setrecursionlimit(old)

    th = threading.Thread(target=work)
    th.start()
    th.join()
    if "e" in box:
        raise box["e"]
    return box.get("v")


def run_chain(c):
    from gwf.scheduling import get_status_map, submit_workflow

    desc = chain_desc(c)
    labels = {"chain", f"order-{c['order']}", "depth>=500" if c["n"] >= 500 else "depth<500"}
    viols = []
    n = c["n"]

    def stage(where, fn):
        try:
            return _plain_stack(fn)
        except RecursionError as exc:
            viols.append(Violation({"kind": "RecursionError", "where": where},
                                   f"{where} on a valid chain of {n} targets ({c['order']} order, fan {c['fan']}): "
                                   f"RecursionError: {exc}"))
        except Exception as exc:  # noqa: BLE001
            viols.append(Violation({"kind": "exception", "where": where, "type": type(exc).__name__},
                                   f"{where} on a valid chain of {n}: {type(exc).__name__}: {exc}"))
        return None

    built = stage("graph", lambda: api.build_graph(desc))
    if built is None:
        return CaseResult(viols, True, sorted(labels))
    graph, fs = built
    R = model.Resolved(desc)
    want, subs = R.plan(R.by_name.keys(), {})
    smap = stage("status", lambda: get_status_map(graph, fs, api.MemHashes({}, False), api.MemBackend({})))
    if smap is not None:
        got = {t.name: s.name.lower() for t, s in smap.items()}
        if got != want:
            bad = [k for k in want if got.get(k) != want[k]][:5]
            viols.append(Violation({"kind": "chain-status"}, f"status differs from model for {bad}"))
    be = api.MemBackend({})
    if stage("run", lambda: submit_workflow(graph.endpoints(), graph, fs, api.MemHashes({}, False), be)) is not None \
            or not viols:
        if sorted(x for x, _ in be.calls) != sorted(x for x, _ in subs) and not any(v.sig.get("where") == "run" for v in viols):
            viols.append(Violation({"kind": "chain-run"}, "submitted set differs from model"))

    def touch():
        from gwf.plugins.touch import touch_workflow

        class Rec(api.MemHashes):
            pass

        seen = []
        import pathlib

        orig = pathlib.Path.touch
        pathlib.Path.touch = lambda self, *a, **k: seen.append(str(self))
        try:
            touch_workflow(graph.endpoints(), graph, Rec({}, False))
        finally:
            pathlib.Path.touch = orig
        return seen

    seen = stage("touch", touch)
    if seen is not None and len(seen) != len(desc["targets"]):
        viols.append(Violation({"kind": "chain-touch"}, f"touch visited {len(seen)} outputs of {len(desc['targets'])}"))
    return CaseResult(viols, True, sorted(labels))
