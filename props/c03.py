"""C03  Dependency graph is exactly the relation induced by shared file paths."""

import json

from hypothesis import strategies as st

from vlib import api, gen, model
from vlib.runner import CaseResult, Violation

ID = "C03"
LEVEL = "exploration"
TECHNIQUE = ("Hypothesis-generated target sets with per-target working directories, path spellings and container "
             "shapes; independent relational model of the file-induced dependency relation; gwf info via the CLI")
RULE = ("case = valid workflow of 1-6 (thorough 10) targets over a file pool whose base names repeat across "
        "directories, each target with its own working directory (project root, w1, w1/w2, w2), every path occurrence "
        "spelled one of 7 ways (relative, ./x, q/../x, a//b, absolute, PathLike, ./././x) and grouped in one of 11 "
        "container shapes, definition order a drawn permutation. Oracle (model.Resolved, no gwf code): dependencies, "
        "dependents (exact inverse), provides, unresolved, endpoints from Graph.from_targets equal the relations "
        "computed from normalised resolved paths; `gwf info` JSON reports the same dependencies/dependents. "
        "Non-trivial: some dependency edge joins occurrences whose texts differ, or two occurrences with equal text "
        "resolve to different files. "
        "Also: `gwf info` with two names and a pattern at once; the Target objects are edited (an input "
        "dropped or added) after a first graph was built and the graph is built again from the same objects "
        "(oracle = model of the edited description); invocation styles of project.Project for the info tier. "
        "Distinct = SHA-1 of canonical case JSON.")
ASSUMPTIONS = [
    "un-normalised absolute spellings (/p/./x) are not generated: the anchor says absolute paths are kept as given",
    "symbolic links are not generated (normalisation is textual by design)",
    "bounds: <=10 targets, <=14 files",
]
BUDGET = {
    "quick": {"examples": 700, "wall_s": 90, "shards": 4},
    "thorough": {"examples": 10000, "wall_s": 900, "shards": 16},
}

WDS = (None, None, "w1", "w1/w2", "w2")
DIRS = ["", "w1", "w1/w2", "w2", ""]


def strategy(tier):
    big = tier == "thorough"
    def base(exotic):
        return gen.wellformed(max_targets=10 if big else 6, max_files=14 if big else 9,
                              wds=WDS + (("lnk",) if exotic else ()), dirs=DIRS, nb=3,
                              spellings=(0, 1, 2, 3, 4, 5, 6, 7, 8, 9),
                              shapes=tuple(range(12)) if exotic else tuple(range(11)), min_targets=2)

    @st.composite
    def with_relwd(draw):
        # one case in four uses shapes that only the API tier can carry (a non-dict mapping, a symlinked
        # working directory); the rest also goes through `gwf info`
        d = draw(base(draw(st.sampled_from([False, False, False, True]))))
        # some targets get their working directory as a path relative to the invoking directory (API tier only;
        # the CLI tier always hands absolute working directories to gwf)
        flags = [draw(st.sampled_from([False, False, True])) for _ in d["targets"]]
        # edits applied to the Target objects after a first graph was built from them (then the graph is built again):
        # drop the first input of target i / give target i the file j as an additional input
        edits = draw(st.lists(st.one_of(st.tuples(st.just("drop"), st.integers(0, 9)),
                                        st.tuples(st.just("add"), st.integers(0, 9), st.integers(0, 13))), max_size=3))
        return {"desc": d, "relwd": flags, "alt_root": draw(st.booleans()), "edits": [list(e) for e in edits],
                "invoke": draw(gen.invoke())}

    return with_relwd()


def edited(desc, edits):
    """desc with the edits applied to the targets' inputs (None when nothing changes or the result is not a
    well-formed workflow any more)."""
    import copy

    d2 = copy.deepcopy(desc)
    ts = d2["targets"]
    files = sorted(desc["files"])
    changed = False
    for e in edits:
        t = ts[e[1] % len(ts)]
        lv = [model.resolve_leaf(k, txt, t.get("wd") or "") for k, txt in model.leaves(t.get("inputs", []))]
        if e[0] == "drop" and lv:
            t["inputs"] = [{"__abs": p} for p in lv[1:]]
            changed = True
        elif e[0] == "add":
            f = files[e[2] % len(files)]
            if f not in lv:
                t["inputs"] = [{"__abs": p} for p in lv] + [{"__abs": f}]
                changed = True
    if not changed:
        return None
    R2 = model.Resolved(d2)
    return d2 if not R2.defects() else None


def info_tier(desc, R, invoke=None):
    """`gwf info` (JSON) must report the same dependencies/dependents."""
    import json

    from vlib import project

    viols = []
    if invoke is None and any(t.get("wd") for t in desc["targets"]) and len(desc["targets"]) % 2:
        # every command runs in the directory of the workflow file: a template may then name its working directory
        # relative to it
        desc = dict(desc, rel_twd=True)
    with project.Project(desc, backend="slurm", invoke=invoke) as proj:
        proj.set_files({p: (t if t is not None else None) for p, t in desc["files"].items()})
        r = proj.gwf(["info"])
        if r.code != 0 or r.crashed:
            return [Violation({"kind": "info-failed", "exc": type(r.exc).__name__ if r.exc else None}, r.brief())]
        try:
            data = json.loads(r.out)
        except ValueError as exc:
            return [Violation({"kind": "info-not-json"}, f"{exc}: {r.out[:200]!r}")]
        if set(data) != set(R.by_name):
            viols.append(Violation({"kind": "info-targets"}, f"info lists {sorted(data)}, workflow has {sorted(R.by_name)}"))
        for n, d in data.items():
            if n not in R.by_name:
                continue
            if set(d.get("dependencies", [])) != R.deps[n] or len(d.get("dependencies", [])) != len(R.deps[n]):
                viols.append(Violation({"kind": "info-dependencies"},
                                       f"info {n}: dependencies {d.get('dependencies')} != {sorted(R.deps[n])}"))
            if set(d.get("dependents", [])) != R.dependents[n] or len(d.get("dependents", [])) != len(R.dependents[n]):
                viols.append(Violation({"kind": "info-dependents"},
                                       f"info {n}: dependents {d.get('dependents')} != {sorted(R.dependents[n])}"))
        # the human-readable format reports the same dependents
        rp = proj.gwf(["info", "-f", "pretty"])
        if rp.code != 0 or rp.crashed:
            viols.append(Violation({"kind": "info-pretty-failed"}, rp.brief()))
        else:
            cur, section, shown = None, None, {}
            for line in rp.out.splitlines():
                if line.startswith("    "):
                    val = line.strip()
                    if section == "Name:":
                        cur = val
                        shown[cur] = []
                    elif section == "Dependents:" and cur is not None and val != "-":
                        shown[cur].append(val)
                elif line.strip():
                    section = line.strip()
            for n in R.by_name:
                if sorted(shown.get(n, ["<missing>"])) != sorted(R.dependents[n]):
                    viols.append(Violation({"kind": "info-pretty-dependents"},
                                           f"info -f pretty {n}: Dependents {shown.get(n)} != {sorted(R.dependents[n])}"))
                    break
        # several names and patterns in one request: exactly the matching targets, each with its relations
        ordered = sorted(R.by_name)
        if len(ordered) >= 2:
            request = [ordered[-1], ordered[0]] + ([ordered[len(ordered) // 2][:1] + "*"] if len(ordered) >= 3 else [])
            expect = model.match_names(ordered, request)
            rm = proj.gwf(["info", *request])
            try:
                dm = json.loads(rm.out) if rm.code == 0 and not rm.crashed else None
            except ValueError:
                dm = None
            if dm is None:
                viols.append(Violation({"kind": "info-many-failed"}, rm.brief()))
            elif set(dm) != expect or any(set(dm[n].get("dependents", ())) != R.dependents[n]
                                          or set(dm[n].get("dependencies", ())) != R.deps[n] for n in dm if n in R.by_name):
                viols.append(Violation({"kind": "info-many"},
                                       f"`gwf info {' '.join(request)}` reports {sorted(dm)}, the request selects {sorted(expect)} "
                                       f"(or their relations differ from the graph's)"))
        # a single named target reports the same relations
        first = sorted(R.by_name)[0]
        r1 = proj.gwf(["info", first])
        if r1.code == 0 and not r1.crashed:
            try:
                d1 = json.loads(r1.out)
                if set(d1) != {first} or set(d1[first]["dependents"]) != R.dependents[first] \
                        or set(d1[first]["dependencies"]) != R.deps[first]:
                    viols.append(Violation({"kind": "info-single"}, f"info {first}: {d1}"))
            except (ValueError, KeyError) as exc:
                viols.append(Violation({"kind": "info-single-bad"}, str(exc)))
        else:
            viols.append(Violation({"kind": "info-single-failed"}, r1.brief()))
    return viols


def run_case(case):
    desc = case["desc"]
    R = model.Resolved(desc)
    viols, labels = [], set()
    api_desc = dict(desc, alt_root=bool(case.get("alt_root")))
    if any(case.get("relwd", [])):
        api_desc = dict(api_desc, targets=[dict(t, relwd=bool(f)) for t, f in zip(desc["targets"], case["relwd"])])
        labels.add("relative-working-dir")
    try:
        graph, _ = api.build_graph(api_desc, real=True)
    except Exception as exc:  # noqa: BLE001
        return CaseResult([Violation({"kind": "exception", "type": type(exc).__name__},
                                     f"valid workflow rejected: {type(exc).__name__}: {exc}")], False, ["exception"])

    def names(ts):
        return {t.name for t in ts}

    for t in graph.targets.values():
        got = names(graph.dependencies.get(t, ()))
        if got != R.deps[t.name]:
            viols.append(Violation({"kind": "dependencies"},
                                   f"{t.name}: dependencies {sorted(got)} != induced {sorted(R.deps[t.name])}"))
        got = names(graph.dependents.get(t, ()))
        if got != R.dependents[t.name]:
            viols.append(Violation({"kind": "dependents"},
                                   f"{t.name}: dependents {sorted(got)} != inverse {sorted(R.dependents[t.name])}"))
    prov = {api.rel(p): t.name for p, t in graph.provides.items()}
    wantprov = {p: v[0] for p, v in R.producers.items()}
    if prov != wantprov:
        viols.append(Violation({"kind": "provides"}, f"provides {prov} != {wantprov}"))
    unres = {api.rel(p) for p in graph.unresolved}
    if unres != R.unresolved:
        viols.append(Violation({"kind": "unresolved"}, f"unresolved {sorted(unres)} != {sorted(R.unresolved)}"))
    ends = names(graph.endpoints())
    if ends != R.endpoints():
        viols.append(Violation({"kind": "endpoints"}, f"endpoints {sorted(ends)} != {sorted(R.endpoints())}"))

    if '"__m"' not in json.dumps(desc) and not any(t.get("wd") == "lnk" for t in desc["targets"]):
        viols += info_tier(desc, R, case.get("invoke"))
    else:
        labels.add("api-only-shape")

    # the Target objects are edited and the graph is built again from the same objects: the new graph is the
    # relation induced by the paths the targets carry now
    d2 = edited(desc, case.get("edits") or []) if not viols else None
    if d2 is not None:
        labels.add("rebuilt-after-edit")
        R2 = model.Resolved(d2)
        try:
            g2 = api.rebuild_graph(graph, d2)
        except Exception as exc:  # noqa: BLE001
            viols.append(Violation({"kind": "exception-after-edit", "type": type(exc).__name__},
                                   f"well-formed workflow rejected after its targets were edited: {type(exc).__name__}: {exc}"))
        else:
            for t in g2.targets.values():
                got = names(g2.dependencies.get(t, ()))
                if got != R2.deps[t.name]:
                    viols.append(Violation({"kind": "dependencies-after-edit"},
                                           f"{t.name}: after editing the targets' inputs ({case['edits']}) and building the graph "
                                           f"again, dependencies are {sorted(got)}, the paths induce {sorted(R2.deps[t.name])}"))
                    break
            ends = names(g2.endpoints())
            if ends != R2.endpoints():
                viols.append(Violation({"kind": "endpoints-after-edit"}, f"endpoints {sorted(ends)} != {sorted(R2.endpoints())}"))

    # non-triviality: alias spellings / homonyms
    occ = []  # (text, resolved)
    for t in desc["targets"]:
        wd = t.get("wd") or ""
        for side in ("inputs", "outputs"):
            for k, txt in model.leaves(t.get(side, [])):
                occ.append((t["name"], side, f"{k}:{txt}", model.resolve_leaf(k, txt, wd)))
    alias = any(a[3] == b[3] and a[2] != b[2] and a[1] == "inputs" and b[1] == "outputs" for a in occ for b in occ)
    homonym = any(a[2] == b[2] and a[3] != b[3] for a in occ for b in occ)
    if alias:
        labels.add("alias-edge")
    if homonym:
        labels.add("homonym-non-edge")
    if any(t.get("wd") for t in desc["targets"]):
        labels.add("per-target-wd")
    return CaseResult(viols, alias or homonym, sorted(labels))
