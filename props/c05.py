"""C05  status, dry-run and run agree, and the two previews change nothing."""

from hypothesis import strategies as st

from vlib import gen, hist, model, project
from vlib.runner import CaseResult, Violation

ID = "C05"
LEVEL = "exploration"
TECHNIQUE = ("Hypothesis-generated project states (DAG, files, backend vector incl. in-flight/failed/cancelled jobs, spec "
             "hashing) through the real CLI against simulated schedulers; relational oracle status == dry-run == run, "
             "filter views recomputed from the unfiltered table, before/after snapshots for side effects")
RULE = ("case = well-formed workflow (2-6, thorough 9 targets) + file ticks + backend vector reached through a real first "
        "run + optional spec hashing with per-target same/changed/no-record + name patterns + a status/endpoint/format "
        "filter combination + pre-planted log files. Oracle: (1) the unfiltered `gwf status` table equals model.plan; "
        "(2) each filtered or summary view equals the restriction/histogram of that table computed by the harness; "
        "(3) `gwf run --dry-run` lists exactly the cone targets shown shouldrun/failed/cancelled and (4) `gwf run` submits "
        "exactly those, once each; (5) after status and dry-run the file tree is byte- and mtime-identical, state files "
        "semantically identical and the scheduler received no submit/cancel command. Non-trivial: the state has >=1 "
        "in-flight and >=1 failed-or-cancelled target and the filter selects a proper non-empty subset. "
        ""
        "Also: records made with hashing on, then hashing switched off through the CLI (previews must leave "
        "the records alone); invocation styles of project.Project. "
        "Distinct = SHA-1 of canonical case JSON.")
ASSUMPTIONS = [
    "simulated scheduler CLIs (vlib/simsched.py); backend states forced directly after a real first run",
    "commands run in-process through click's CliRunner, one fresh workflow/state load per command",
    "state files (.gwf/*.json, .gwfconf.json) are compared semantically (absent == {}), everything else byte- and mtime-exact",
]
BUDGET = {
    "quick": {"examples": 300, "wall_s": 100, "shards": 4},
    "thorough": {"examples": 8000, "wall_s": 1500, "shards": 16},
}


@st.composite
def _case(draw, tier):
    big = tier == "thorough"
    desc = draw(gen.wellformed(wf_wds=(None, None, "wdir"), wds=(None, None, None, "w1"), max_targets=9 if big else 6, max_files=12 if big else 8, ticks=4, min_targets=2,
                               shapes=(0, 2, 4, 5, 7), spellings=(0, 1, 2)))
    names = [t["name"] for t in desc["targets"]]
    vec = {n: draw(st.sampled_from(hist.VEC_STATES)) for n in names}
    if len(names) >= 2 and draw(st.booleans()):
        a, b = draw(st.permutations(names))[:2]
        vec[a] = draw(st.sampled_from(["submitted", "running"]))
        vec[b] = draw(st.sampled_from(["failed", "cancelled"]))
    hashing = draw(st.booleans())
    hstate = {n: draw(st.sampled_from(["same", "same", "changed", "norecord"])) for n in names} if hashing else {}
    flt = {
        "status": draw(st.lists(st.sampled_from(project.STATUSES), max_size=3, unique=True)),
        "endpoints": draw(st.booleans()),
        "patterns": draw(st.one_of(st.just([]), gen.patterns(names))),
        "format": draw(st.sampled_from(["default", "default", "summary"])),
    }
    return {"desc": desc, "invoke": draw(gen.invoke()), "backend": draw(st.sampled_from(["slurm", "slurm", "slurm", "sge", "lsf", "lsf"])), "vector": vec,
            "hashing": hashing, "hstate": hstate, "run_patterns": draw(st.one_of(st.just([]), gen.patterns(names))),
            "filter": flt, "accounting": draw(st.sampled_from([True, True, True, False])),
            "off_now": draw(st.sampled_from([None, None, "no", "false"]))}


def strategy(tier):
    return _case(tier)


def setup_project(case, proj, R):
    """Shared by C05/C18-style checks: returns (effective vector, records) after pre-population."""
    desc, vec = case["desc"], case["vector"]
    flavour = case["backend"]
    sources = {p: (t if t is not None else 1) for p, t in desc["files"].items() if p not in R.producers}
    proj.set_files(sources)
    hist.prepopulate(proj, R, vec)
    records = {}
    if case.get("hashing"):
        records = {t.name: t.spec for t in R.targets}
        changed = False
        for t in desc["targets"]:
            h = case["hstate"].get(t["name"], "same")
            if h == "changed":
                t["spec"] = t["spec"] + "# edited\n"
                changed = True
            elif h == "norecord":
                r = proj.gwf(["clean", "--all", t["name"]])
                if r.code != 0:
                    raise hist.SubjectFailure("clean during setup failed: " + r.brief())
                records.pop(t["name"], None)
        if changed:
            proj.write_desc(desc)
    proj.set_files({p: desc["files"].get(p) for p in R.producers})
    acct = case.get("accounting", True)
    eff = {n: hist.visible_state(flavour, vec.get(n, "unknown"), acct) for n in vec}
    return eff, records


def parse_summary(out):
    res = {}
    for line in out.splitlines():
        toks = line.split()
        if len(toks) >= 3 and toks[-2] in project.STATUSES and toks[-1].isdigit():
            res[toks[-2]] = int(toks[-1])
    return res


def run_case(case):
    desc, flavour = case["desc"], case["backend"]
    hashing = case["hashing"]
    cfg = {"use_spec_hashes": True} if hashing else {}
    if flavour == "slurm" and not case.get("accounting", True):
        cfg["backend.slurm.accounting_enabled"] = False
    viols, labels = [], {"backend-" + flavour}
    with project.Project(desc, backend=flavour, config=cfg, invoke=case.get("invoke")) as proj:
        R = model.Resolved(desc)
        eff, records = setup_project(case, proj, R)
        R = model.Resolved(desc)  # specs may have been edited
        names = [t.name for t in R.targets]
        # planted logs: of current targets and of a target that no longer exists
        for n in names[:2] + ["Gone"]:
            for ext in (".stdout", ".stderr"):
                with open(proj.path(f".gwf/logs/{n}{ext}"), "w") as f:
                    f.write("old log\n")
        if hashing and case.get("off_now"):
            # the history was made with spec hashing on; it has been switched off since: the records stay where they
            # are (the previews must not touch them) and do not count for the decision
            rc_ = proj.gwf(["config", "set", "use_spec_hashes", case["off_now"]])
            if rc_.code != 0 or rc_.crashed:
                return CaseResult([Violation({"kind": "config-set-failed"}, rc_.brief())], False, sorted(labels))
            hashing = False
            labels.add("hashing-switched-off-after-records")
        want, _ = R.plan(names, eff, hashing, records)

        snap0 = proj.snapshot()
        log0 = len(proj.sim.mutating_log())

        def preview_clean(what):
            d = proj.snap_diff(snap0, proj.snapshot())
            if d:
                viols.append(Violation({"kind": "preview-changed-files", "cmd": what},
                                       f"`gwf {what}` changed the project: {d[:3]}"))
            m = proj.sim.mutating_log()[log0:]
            if m:
                viols.append(Violation({"kind": "preview-mutated-scheduler", "cmd": what},
                                       f"`gwf {what}` sent {[e['cmd'] for e in m]} to the scheduler"))

        r = proj.gwf(["status"])
        if r.code != 0 or r.crashed:
            return CaseResult([Violation({"kind": "status-failed"}, r.brief())], False, sorted(labels))
        table = r.status_rows()
        preview_clean("status")
        if table != want:
            diff = {n: (table.get(n), want.get(n)) for n in set(table) | set(want) if table.get(n) != want.get(n)}
            viols.append(Violation({"kind": "status-table-vs-model"}, f"(gwf, model) differ: {diff}; vector {eff}"))

        # filtered view
        f = case["filter"]
        args = ["status"]
        for s in f["status"]:
            args += ["-s", s]
        if f["endpoints"]:
            args.append("--endpoints")
        if f["format"] != "default":
            args += ["-f", f["format"]]
        args += f["patterns"]
        sel = set(names)
        if f["status"]:
            sel &= {n for n in names if table.get(n) in f["status"]}
        if f["patterns"]:
            sel &= model.match_names(names, f["patterns"])
        if f["endpoints"]:
            sel &= R.endpoints()
        r2 = proj.gwf(args)
        if r2.code != 0 or r2.crashed:
            viols.append(Violation({"kind": "filtered-status-failed", "format": f["format"], "empty": not sel,
                                    "exc": type(r2.exc).__name__ if r2.exc else None},
                                   f"selection {sorted(sel)}: " + r2.brief()))
        elif f["format"] == "default":
            got = r2.status_rows()
            exp = {n: table[n] for n in sel if n in table}
            if got != exp:
                viols.append(Violation({"kind": "filtered-view"}, f"`gwf {' '.join(args)}` shows {got}, restriction is {exp}"))
        else:
            got = parse_summary(r2.out)
            exp = {s: sum(1 for n in sel if table.get(n) == s) for s in project.STATUSES}
            if got != exp:
                viols.append(Violation({"kind": "summary-view"}, f"`gwf {' '.join(args)}` shows {got}, histogram is {exp}"))
        preview_clean("status (filtered)")

        # dry run
        pats = case["run_patterns"]
        requested = model.match_names(names, pats) if pats else R.endpoints()
        cone = R.cone(requested)
        expect = sorted(n for n in cone if table.get(n) in ("shouldrun", "failed", "cancelled"))
        r3 = proj.gwf(["run", "--dry-run", *pats])
        if r3.code != 0 or r3.crashed:
            viols.append(Violation({"kind": "dry-run-failed"}, r3.brief()))
        else:
            w = r3.would_submit()
            if sorted(w) != expect:
                viols.append(Violation({"kind": "dry-run-vs-status"},
                                       f"dry-run would submit {sorted(w)}; status shows {expect} as shouldrun/failed/cancelled in the cone"))
        preview_clean("run --dry-run")

        # the real run
        before = len(proj.sim.submissions())
        r4 = proj.gwf(["run", *pats])
        if r4.code != 0 or r4.crashed:
            viols.append(Violation({"kind": "run-failed"}, r4.brief()))
        else:
            sub = sorted(j.name for j in proj.sim.submissions()[before:])
            if sub != expect:
                viols.append(Violation({"kind": "run-vs-status"},
                                       f"run submitted {sub}; status showed {expect} as shouldrun/failed/cancelled in the cone"))
    inflight = any(v in ("submitted", "running") for v in eff.values())
    broken = any(v in ("failed", "cancelled") for v in eff.values())
    proper = 0 < len(sel) < len(names)
    if inflight:
        labels.add("in-flight")
    if broken:
        labels.add("failed-or-cancelled")
    if not sel:
        labels.add("filter-selects-nothing")
    if f["format"] == "summary":
        labels.add("summary")
    if hashing:
        labels.add("hashing")
    return CaseResult(viols, inflight and broken and proper, sorted(labels))
