"""C08  A target's reported state is the scheduler's state of its own latest job."""

import itertools

from hypothesis import strategies as st

from vlib import gen, hist, model, project, simsched
from vlib.runner import CaseResult, Violation

ID = "C08"
LEVEL = "exploration"
TECHNIQUE = ("exhaustive enumeration of every documented scheduler state code x source (live queue / accounting / both "
             "conflicting / nowhere) x accounting switch x file state against an admissible-set table, plus Hypothesis-"
             "generated multi-invocation histories (re-submission, look-alike foreign ids, stale accounting, >1024 "
             "tracked jobs) on simulated Slurm/SGE/LSF; id round trip checked byte for byte")
RULE = ("(a) exhaustive: for each backend every documented state code (Slurm: 24 squeue short codes, 15 sacct long names "
        "incl. 'CANCELLED by <uid>'; LSF: 10 bjobs STAT values; SGE: 14 qstat state-letter combinations) x where the job "
        "is visible (queue only, accounting only, both with conflicting codes, nowhere) x accounting enabled/disabled x "
        "outputs fresh/missing; (b) generated histories of gwf run / scheduler transition / ageing / re-submission steps "
        "with foreign jobs whose ids are prefixes, suffixes or neighbours of tracked ids; one case with 2500 tracked jobs "
        "(three sacct batches). Oracle: the displayed state of each target is in the admissible set (DESIGN appendix A) "
        "of the code of the job whose id the scheduler returned at the target's latest submission; the live queue wins "
        "over accounting; with accounting disabled sacct is never invoked; the tracked id equals the id the scheduler "
        "printed (after trimming whitespace); success or no record falls back to the file-based decision. Non-trivial: "
        "the target has >=2 jobs known to the scheduler or a look-alike foreign id is present, and the displayed code is "
        "not plain pending/running; every enumerated code whose class is not pending/running also counts. "
        "Distinct = SHA-1 of canonical case JSON.")
ASSUMPTIONS = [
    "state-code tables transcribed from the squeue/sacct/bjobs/qstat manuals; codes whose class the statement does not fix admit the neighbouring classes (DESIGN appendix A)",
    "bjobs prints nothing for an id it no longer knows (as gwf's LSF backend assumes)",
    "the tracked-jobs file is read as a JSON object name -> id (the observation point named by the property)",
]
CASE_TIMEOUT_S = 200
BUDGET = {
    "quick": {"examples": 150, "wall_s": 100, "shards": 4},
    "thorough": {"examples": 6000, "wall_s": 1500, "shards": 16},
}

F = "file"  # the file-based decision
ANY = None
SLURM_SHORT = {
    "BF": {"failed"}, "CA": {"cancelled"}, "CD": {F}, "CF": {"submitted", "running"}, "CG": {"running", "submitted"},
    "DL": {"failed"}, "F": {"failed"}, "NF": {"failed"}, "OOM": {"failed"}, "PD": {"submitted"},
    "PR": {"failed", "cancelled"}, "R": {"running"}, "RD": {"submitted"}, "RF": {"submitted"}, "RH": {"submitted"},
    "RQ": {"submitted"}, "RS": {"submitted", "running"}, "RV": ANY, "SI": {"running", "submitted"},
    "SE": {"submitted", "failed"}, "SO": {"running", "submitted"}, "ST": {"running", "submitted"},
    "S": {"running", "submitted"}, "TO": {"failed"},
}
SLURM_LONG = {
    "BOOT_FAIL": {"failed"}, "CANCELLED": {"cancelled"}, "CANCELLED by 1000": {"cancelled"}, "COMPLETED": {F},
    "DEADLINE": {"failed"}, "FAILED": {"failed"}, "NODE_FAIL": {"failed"}, "OUT_OF_MEMORY": {"failed"},
    "PENDING": {"submitted"}, "PREEMPTED": {"failed", "cancelled"}, "RUNNING": {"running"}, "REQUEUED": {"submitted"},
    "RESIZING": {"submitted", "running"}, "REVOKED": ANY, "SUSPENDED": {"running", "submitted"}, "TIMEOUT": {"failed"},
}
LSF = {
    "PEND": {"submitted"}, "WAIT": {"submitted"}, "PROV": {"submitted", "running"}, "PSUSP": {"submitted"},
    "USUSP": {"running", "submitted"}, "SSUSP": {"running", "submitted"}, "RUN": {"running"}, "DONE": {F},
    "EXIT": {"failed", "cancelled"}, "UNKWN": ANY, "ZOMBI": ANY,
}
SGE = {
    "qw": {"submitted"}, "hqw": {"submitted"}, "hRwq": {"submitted"}, "r": {"running"}, "t": {"running"},
    "Rr": {"running"}, "Rt": {"running"}, "s": {"running", "submitted"}, "S": {"running", "submitted"},
    "T": {"running", "submitted"}, "ts": {"running", "submitted"}, "Eqw": {"failed", "submitted", F},
    "dr": ANY, "dt": ANY,
    # further combinations of the documented flags (qstat(1): d, E, h, r, R, s, S, t, T, w, q): a hold placed on a
    # running job, a job rescheduled after a host failure and waiting or held again, the remaining suspended,
    # error and deletion codes of the usual tables
    "hr": {"running"}, "ht": {"running"}, "Rq": {"submitted"}, "hRq": {"submitted"}, "Rqw": {"submitted"},
    "tS": {"running", "submitted"}, "tT": {"running", "submitted"}, "Rs": {"running", "submitted"},
    "Rts": {"running", "submitted"}, "RS": {"running", "submitted"}, "RtS": {"running", "submitted"},
    "RT": {"running", "submitted"}, "RtT": {"running", "submitted"},
    "Ehqw": {"failed", "submitted", F}, "EhRqw": {"failed", "submitted", F},
    "dRr": ANY, "dRt": ANY, "ds": ANY, "dS": ANY, "dT": ANY, "dRs": ANY, "dRS": ANY, "dRT": ANY,
}
PLAIN = {"PD", "R", "PENDING", "RUNNING", "PEND", "RUN", "qw", "r"}


INVOKE_STYLES = (None, {"plan": [0, 1]}, {"plan": [2, 1]}, {"plan": [0, 1, 2], "wf_link": True}, None,
                 {"plan": [1], "obj": "analysis"})


def enumerate_cases(tier):
    """Every enumerated state-code case is also given one of a few invocation styles (sub-directory, -f from
    elsewhere, symlinked workflow file, named workflow object), cycling with its position."""
    for i, c in enumerate(_enumerate_cases(tier)):
        if c["kind"] == "code" and INVOKE_STYLES[i % len(INVOKE_STYLES)]:
            c = dict(c, invoke=INVOKE_STYLES[i % len(INVOKE_STYLES)])
        yield c


def _enumerate_cases(tier):
    for code in SLURM_SHORT:
        for acct_on, files in itertools.product((True, False), ("fresh", "missing")):
            yield {"kind": "code", "backend": "slurm", "where": "queue", "code": code, "acct": acct_on, "files": files}
    for code in SLURM_LONG:
        for acct_on, files in itertools.product((True, False), ("fresh", "missing")):
            yield {"kind": "code", "backend": "slurm", "where": "acct", "code": code, "acct": acct_on, "files": files}
    # conflicting sources: the live queue wins
    for q, a in itertools.product(("PD", "R", "CG", "F", "CA", "CD"), ("PENDING", "RUNNING", "FAILED", "CANCELLED", "COMPLETED", "TIMEOUT")):
        for acct_on in (True, False):
            yield {"kind": "code", "backend": "slurm", "where": "both", "code": q, "acct_code": a, "acct": acct_on, "files": "fresh"}
    for acct_on, files in itertools.product((True, False), ("fresh", "missing")):
        yield {"kind": "code", "backend": "slurm", "where": "nowhere", "code": None, "acct": acct_on, "files": files}
    for code in LSF:
        for files in ("fresh", "missing"):
            yield {"kind": "code", "backend": "lsf", "where": "queue", "code": code, "acct": True, "files": files}
    for code in SGE:
        for files in ("fresh", "missing"):
            yield {"kind": "code", "backend": "sge", "where": "queue", "code": code, "acct": True, "files": files}
    for b in ("lsf", "sge"):
        for files in ("fresh", "missing"):
            yield {"kind": "code", "backend": b, "where": "nowhere", "code": None, "acct": True, "files": files}
    # two backends used in one project directory: each must only ever see its own jobs
    for first, second in itertools.permutations(("slurm", "sge", "lsf"), 2):
        for shadow in (True, False):
            yield {"kind": "cross", "first": first, "second": second, "shadow": shadow}
    # the accounting switch set the way a user sets it (gwf config set ... no)
    for word in ("no", "false"):
        for code in ("FAILED", "CANCELLED", "TIMEOUT"):
            yield {"kind": "code", "backend": "slurm", "where": "acct", "code": code, "acct": False, "files": "fresh",
                   "config_via": "cli", "word": word}
    # restarts of the local worker pool: the new pool must not answer for jobs of the old one
    for other_first in (True, False):
        yield {"kind": "restart", "other_first": other_first}
    yield {"kind": "many", "n": 2500 if tier == "thorough" else 1100, "acct": True}
    yield {"kind": "many", "n": 1030, "acct": False}


ONE = {"targets": [{"name": "T", "inputs": ["src"], "outputs": ["out"], "spec": "echo T\n", "wd": None},
                   {"name": "U", "inputs": [], "outputs": ["u"], "spec": "echo U\n", "wd": None}],
       "files": {"src": 1}}


def run_code(case):
    b = case["backend"]
    cfg = {}
    if b == "slurm" and not case["acct"]:
        cfg["backend.slurm.accounting_enabled"] = False
    viols = []
    with project.Project(ONE, backend=b, config=cfg if case.get("config_via") != "cli" else {}, invoke=case.get("invoke")) as proj:
        if case.get("config_via") == "cli":
            rc_ = proj.gwf(["config", "set", "backend.slurm.accounting_enabled", case.get("word", "no")])
            if rc_.code != 0:
                raise hist.SubjectFailure("config set failed: " + rc_.brief())
        proj.set_files({"src": 1})
        r = proj.gwf(["run"])
        if r.code != 0:
            raise hist.SubjectFailure("setup run failed: " + r.brief())
        sim = proj.sim
        j = sim.latest("T")
        u = sim.latest("U")
        if j is None or u is None:
            return CaseResult([Violation({"kind": "fresh-targets-not-submitted"},
                                         f"first run of a fresh project submitted {[x.name for x in sim.submissions()]}, expected T and U")],
                              True, ["code"])
        hist.set_job_state(sim, u, "running")
        where = case["where"]
        j.state = simsched.RUNNING  # abstract state is irrelevant: the displayed code is forced below
        if where == "queue":
            j.in_queue, j.in_acct = True, False
            j.code = case["code"]
        elif where == "acct":
            j.in_queue, j.in_acct = False, True
            j.acct_state = case["code"]
        elif where == "both":
            j.in_queue, j.in_acct = True, True
            j.code = case["code"]
            j.acct_state = case["acct_code"]
        else:
            j.in_queue, j.in_acct = False, False
        if b == "sge" and where == "queue":
            j.state = simsched.RUNNING if case["code"] and ("r" in case["code"] or "t" in case["code"]) else simsched.PENDING
        if case["files"] == "fresh":
            proj.set_files({"out": 5, "u": 5})
            file_decision = "completed"
        else:
            file_decision = "shouldrun"
        log0 = len(sim.log)
        r = proj.gwf(["status"])
        if r.code != 0 or r.crashed:
            return CaseResult([Violation({"kind": "status-crashed", "backend": b, "code": case["code"],
                                          "exc": type(r.exc).__name__ if r.exc else None},
                                         f"{b} code {case['code']!r} ({where}): " + r.brief())], True, ["code"])
        table = r.status_rows()
        got = table.get("T")
        called_sacct = any(e["cmd"] == "sacct" for e in sim.log[log0:])
        if b == "slurm" and called_sacct != case["acct"]:
            viols.append(Violation({"kind": "accounting-switch", "enabled": case["acct"]},
                                   f"accounting_enabled={case['acct']} but sacct called: {called_sacct}"))
        # admissible set
        if b == "slurm":
            if where == "queue" or where == "both":
                adm = SLURM_SHORT[case["code"]]
            elif where == "acct":
                adm = SLURM_LONG[case["code"]] if case["acct"] else {F}
            else:
                adm = {F}
        elif b == "lsf":
            adm = LSF[case["code"]] if where == "queue" else {F}
        else:
            adm = SGE[case["code"]] if where == "queue" else {F}
        if adm is not ANY:
            adm2 = {file_decision if x == F else x for x in adm}
            if got not in adm2:
                viols.append(Violation({"kind": "wrong-displayed-state", "backend": b, "code": case["code"], "where": where},
                                       f"{b}: job of T shows code {case['code']!r} ({where}"
                                       + (f", accounting says {case.get('acct_code')}" if where == "both" else "")
                                       + f", accounting_enabled={case['acct']}); gwf displays {got!r}, admissible {sorted(adm2)}"))
        if table.get("U") != "running":
            viols.append(Violation({"kind": "other-target-disturbed"}, f"U should be running, shows {table.get('U')}"))
    nt = case["code"] not in PLAIN
    return CaseResult(viols, nt, ["code", "backend-" + b, "where-" + where])


RUNNING_CODE = {"slurm": "R", "sge": "r", "lsf": "RUN"}


def run_cross(case):
    """T is submitted through backend `first`; backend `second`, used in the same project, never submitted it."""
    a, b = case["first"], case["second"]
    viols = []
    with project.Project(ONE, backend=a) as proj:
        proj.set_files({"src": 1})
        sim = proj.sim
        r = proj.gwf(["-b", a, "run", "T"])
        if r.code != 0 or r.crashed:
            raise hist.SubjectFailure("setup run failed: " + r.brief())
        ja = sim.latest("T")
        hist.set_job_state(sim, ja, "submitted")
        if case["shadow"]:
            ja.shadow[b] = RUNNING_CODE[b]  # an unrelated job of the other scheduler happens to carry the same id
        r1 = proj.gwf(["-b", b, "status", "T"])
        t1 = r1.status_rows().get("T")
        if r1.code != 0 or r1.crashed:
            viols.append(Violation({"kind": "status-failed", "backend": b}, r1.brief()))
        elif t1 != "shouldrun":
            viols.append(Violation({"kind": "state-of-foreign-backend-job", "first": a, "second": b},
                                   f"T was submitted through {a} only (job {ja.id}); `gwf -b {b} status` shows {t1!r}, "
                                   f"expected the file-based 'shouldrun'"))
        r2 = proj.gwf(["-b", b, "run", "T"])
        jb = sim.latest("T")
        if r2.code != 0 or r2.crashed or jb is ja:
            viols.append(Violation({"kind": "second-backend-run", "first": a, "second": b},
                                   f"`gwf -b {b} run T` did not submit T: " + r2.brief()))
        else:
            hist.set_job_state(sim, jb, "submitted")
            hist.set_job_state(sim, ja, "running")
            r3 = proj.gwf(["-b", a, "status", "T"])
            t3 = r3.status_rows().get("T")
            if t3 != "running":
                viols.append(Violation({"kind": "tracked-id-overwritten-by-other-backend", "first": a, "second": b},
                                       f"T's {a} job {ja.id} is running, but after a submission through {b} "
                                       f"`gwf -b {a} status` shows {t3!r}"))
            r4 = proj.gwf(["-b", b, "status", "T"])
            if r4.status_rows().get("T") != "submitted":
                viols.append(Violation({"kind": "second-backend-state", "first": a, "second": b},
                                       f"`gwf -b {b} status` shows {r4.status_rows().get('T')!r} for its pending job {jb.id}"))
    return CaseResult(viols, True, ["cross", f"{a}-then-{b}"])


def run_restart(case):
    """Local backend: T is submitted to a pool, the pool is restarted, other work is submitted to the new pool.
    T's job no longer exists anywhere, so T falls back to the file-based decision - whatever the new pool's
    tasks are doing."""
    import time

    from vlib import realpool

    desc = {"targets": [{"name": "T", "inputs": [], "outputs": ["t.out"], "spec": "sleep 30\n", "wd": None},
                        {"name": "Other", "inputs": [], "outputs": ["o.out"], "spec": "sleep 30\n", "wd": None},
                        {"name": "Quick", "inputs": [], "outputs": ["q.out"], "spec": "touch q.out\n", "wd": None}]
            + [{"name": f"P{i}", "inputs": [], "outputs": [f"p{i}.out"], "spec": "true\n", "wd": None} for i in range(6)]
            + [{"name": f"Q{i}", "inputs": [], "outputs": [f"q{i}.out"], "spec": "sleep 30\n", "wd": None} for i in range(10)],
            "files": {}}
    viols = []
    with project.Project(desc, backend="local") as proj:
        pool = realpool.Pool(proj.dir, 2)
        try:
            proj.write_config({"backend": "local", "backend.local.port": pool.port, "backend.local.host": "127.0.0.1"})
            # a handful of tasks before T, so that T's id is some way into the old pool's id range
            first = [f"P{i}" for i in range(6)] + (["Other", "T"] if case["other_first"] else ["T"])
            for n in first:
                r = proj.gwf(["run", n])
                if r.code != 0 or r.crashed:
                    raise hist.SubjectFailure("setup run failed: " + r.brief())
            t0 = proj.gwf(["status", "T"]).status_rows().get("T")
            if t0 not in ("running", "submitted"):
                viols.append(Violation({"kind": "local-state-before-restart"}, f"T shows {t0!r} right after submission"))
            pool.stop()
            port = pool.port
            time.sleep(0.2)
            pool = realpool.Pool(proj.dir, 2)
            proj.write_config({"backend": "local", "backend.local.port": pool.port, "backend.local.host": "127.0.0.1"})
            # the restarted pool knows nothing: T has no job any more
            r1 = proj.gwf(["status", "T"])
            s1 = r1.status_rows().get("T")
            if r1.code != 0 or s1 != "shouldrun":
                viols.append(Violation({"kind": "state-after-pool-restart", "when": "empty-pool"},
                                       f"after a pool restart T shows {s1!r}, expected the file-based 'shouldrun': {r1.brief()}"))
            # other work on the new pool must not be mistaken for T's job
            r2 = proj.gwf(["run", "Other" if not case["other_first"] else "Quick", *[f"Q{i}" for i in range(10)]])
            time.sleep(0.3)
            r3 = proj.gwf(["status", "T"])
            s3 = r3.status_rows().get("T")
            if s3 != "shouldrun":
                viols.append(Violation({"kind": "state-after-pool-restart", "when": "new-pool-has-other-tasks"},
                                       f"T was submitted to a pool that no longer exists; while the restarted pool runs other tasks "
                                       f"`gwf status` shows T as {s3!r} (state of somebody else's task), expected 'shouldrun'"))
        finally:
            pool.stop()
    return CaseResult(viols, True, ["restart", "backend-local"])


def run_many(case):
    n = case["n"]
    desc = {"targets": [{"name": f"m{i}", "inputs": [], "outputs": [f"o/m{i}"], "spec": "true\n", "wd": None}
                        for i in range(n)], "files": {}}
    cfg = {} if case["acct"] else {"backend.slurm.accounting_enabled": False}
    viols = []
    with project.Project(desc, backend="slurm", config=cfg) as proj:
        os_dir = proj.path("o")
        import os

        os.makedirs(os_dir, exist_ok=True)
        r = proj.gwf(["run"])
        if r.code != 0 or r.crashed:
            return CaseResult([Violation({"kind": "run-failed"}, r.brief())], True, ["many"])
        sim = proj.sim
        want = {}
        cycle = [("submitted", "submitted"), ("running", "running"), ("failed", "failed"), ("cancelled", "cancelled"),
                 ("completed", "shouldrun")]
        for i in range(n):
            j = sim.latest(f"m{i}")
            st_, shown = cycle[i % len(cycle)]
            hist.set_job_state(sim, j, st_, hist.FAIL_KINDS[i % 4])
            want[f"m{i}"] = shown if case["acct"] or st_ in ("submitted", "running") else "shouldrun"
        r = proj.gwf(["status"])
        if r.code != 0 or r.crashed:
            return CaseResult([Violation({"kind": "status-failed-many", "n": n}, r.brief())], True, ["many"])
        table = r.status_rows()
        bad = [(k, table.get(k), v) for k, v in want.items() if table.get(k) != v][:5]
        if bad:
            viols.append(Violation({"kind": "many-tracked-jobs"}, f"{n} tracked jobs: (target, shown, expected) {bad}"))
        tracked = proj.state_json("slurm-backend-tracked.json")
        for i in (0, n // 2, n - 1):
            if tracked.get(f"m{i}") != sim.latest(f"m{i}").id:
                viols.append(Violation({"kind": "tracked-id"}, f"m{i}: tracked {tracked.get(f'm{i}')!r} != issued {sim.latest(f'm{i}').id!r}"))
        batches = [e for e in sim.log if e["cmd"] == "sacct"]
        if case["acct"] and sum(len(e["argv"][-1].split(",")) for e in batches[-((n + 1023) // 1024):]) < n:
            viols.append(Violation({"kind": "sacct-batches"}, f"last sacct calls did not cover all {n} ids"))
    return CaseResult(viols, True, ["many"])


# ---------------------------------------------------------------- histories

@st.composite
def _hist_case(draw, tier):
    desc = draw(gen.wellformed(max_targets=6, max_files=9, ticks=3, min_targets=2, shapes=(0, 2, 4), spellings=(0, 1, 4, 5, 7)))
    step = st.one_of(
        st.tuples(st.just("run")), st.tuples(st.just("start"), st.integers(0, 9)),
        st.tuples(st.just("finish"), st.integers(0, 9), st.sampled_from(["ok", "ok", "exit", "timeout", "oom", "node_fail"])),
        st.tuples(st.just("cancel"), st.integers(0, 9)), st.tuples(st.just("age"), st.integers(0, 9)),
        st.tuples(st.just("delete"), st.integers(0, 9)), st.tuples(st.just("stale_acct"), st.integers(0, 9)),
        st.tuples(st.just("status")), st.tuples(st.just("status")),
    )
    b = draw(st.sampled_from(["slurm", "slurm", "sge", "lsf"]))
    return {"kind": "hist", "desc": desc, "invoke": draw(gen.invoke()), "backend": b, "acct": draw(st.sampled_from([True, True, False])),
            "first_id": draw(st.sampled_from([1001, 100, 7, 99998])),
            "foreign": draw(st.lists(st.sampled_from(["pre", "suf", "next", "wrap"]), max_size=3)),
            "steps": [["run"]] + [list(s) for s in draw(st.lists(step, min_size=3, max_size=16))]}


def strategy(tier):
    return _hist_case(tier)


def run_hist(case):
    desc, b = case["desc"], case["backend"]
    cfg = {}
    if b == "slurm" and not case["acct"]:
        cfg["backend.slurm.accounting_enabled"] = False
    viols, labels = [], {"hist", "backend-" + b}
    nt = False
    with project.Project(desc, backend=b, config=cfg, first_id=case["first_id"], invoke=case.get("invoke")) as proj:
        R0 = model.Resolved(desc)
        proj.set_files({p: (t if t is not None or p in R0.producers else 1) for p, t in desc["files"].items()})
        S = hist.Session(proj, desc, accounting=case["acct"])
        sim = proj.sim
        trackfile = f"{b}-backend-tracked.json"

        def add_foreign():
            for kind in case["foreign"]:
                for j in list(sim.submissions())[:3]:
                    fid = {"pre": j.id[:-1] or "1", "suf": "9" + j.id, "next": str(int(j.id) + 100000), "wrap": j.id + "0"}[kind]
                    if fid not in sim.jobs:
                        f = sim.add_foreign(fid, state=simsched.RUNNING if kind != "wrap" else simsched.PENDING)
                        f.in_acct = True
                        labels.add("foreign-lookalike")

        def check(what):
            nonlocal nt
            want, _ = S.plan(S.names())
            r = proj.gwf(["status"])
            if r.code != 0 or r.crashed:
                viols.append(Violation({"kind": "status-failed", "backend": b}, r.brief()))
                return
            got = r.status_rows()
            # cancelled on LSF shows as EXIT -> failed: both admissible
            for n in want:
                g, w = got.get(n), want[n]
                ok = g == w or (b == "lsf" and {g, w} <= {"failed", "cancelled"})
                if not ok:
                    j = sim.latest(n)
                    viols.append(Violation({"kind": "state-vs-latest-job", "backend": b},
                                           f"{what}: {n} shows {g}, the scheduler's state of its latest job "
                                           f"{j.id if j else None} ({j.state if j else 'none'}, in queue {j.in_queue if j else None}, "
                                           f"in accounting {j.in_acct if j else None}) means {w}"))
            tracked = proj.state_json(trackfile)
            for n, tid in tracked.items():
                j = sim.latest(n)
                if j is not None and str(tid) != j.id:
                    viols.append(Violation({"kind": "tracked-id", "backend": b},
                                           f"{what}: tracked id of {n} is {tid!r}, scheduler issued {j.id!r} at its latest submission"))
            multi = any(sum(1 for x in sim.submissions() if x.name == n) >= 2 for n in want)
            if (multi or "foreign-lookalike" in labels) and any(v not in ("submitted", "running") for v in want.values()):
                nt = True

        for step in case["steps"]:
            op = step[0]
            if op == "run":
                r, new = S.run()
                if r.code != 0 or r.crashed:
                    viols.append(Violation({"kind": "run-failed"}, r.brief()))
                add_foreign()
            elif op == "start":
                c = sim.startable()
                if c:
                    sim.start(c[step[1] % len(c)].id)
            elif op == "finish":
                c = sim.running()
                if c:
                    j = c[step[1] % len(c)]
                    if step[2] == "ok":
                        S.complete(j)
                    else:
                        sim.finish(j.id, ok=False, fail_kind=step[2])
                    j.acct_state = None  # accounting catches up when the job ends
                    if b in ("slurm", "sge"):
                        j.in_queue = False
            elif op == "cancel":
                c = [j for j in sim.submissions() if not j.ended]
                if c:
                    j = c[step[1] % len(c)]
                    sim.cancel(j.id, by="admin")
                    j.acct_state = None
                    if b in ("slurm", "sge"):
                        j.in_queue = False
            elif op == "age":
                c = [j for j in sim.submissions() if j.ended]
                if c:
                    j = c[step[1] % len(c)]
                    sim.age_out(j.id, queue=True, acct=True)
                    labels.add("aged-out")
            elif op == "stale_acct":
                # accounting lags behind: it still says PENDING/RUNNING for a job the queue already shows differently
                c = [j for j in sim.submissions() if j.in_queue and not j.ended]
                if c and b == "slurm":
                    j = c[step[1] % len(c)]
                    j.acct_state = "PENDING" if j.state == simsched.RUNNING else "RUNNING"
                    labels.add("stale-accounting")
            elif op == "delete":
                R = S.refresh()
                outs = sorted(p for p in R.producers if proj.tick_of(p) is not None)
                if outs:
                    proj.set_files({outs[step[1] % len(outs)]: None})
            elif op == "status":
                check("status")
            if viols:
                break
        if not viols:
            check("final")
    return CaseResult(viols, nt, sorted(labels))


def run_case(case):
    return {"code": run_code, "many": run_many, "hist": run_hist, "cross": run_cross, "restart": run_restart}[case["kind"]](case)
