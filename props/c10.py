"""C10  Job scripts run the spec faithfully with the resolved resource options."""

import os
import re
import shutil
import subprocess
import tempfile

from hypothesis import strategies as st

from vlib import gen, hist, project, scratch, simsched
from vlib.runner import CaseResult, Violation

ID = "C10"
LEVEL = "translation_validation"
TECHNIQUE = ("translation validation: Hypothesis-generated specs (shell grammar), working-directory names, option "
             "sources and log modes; the script captured on the simulated sbatch/qsub/bsub stdin is executed with bash "
             "from a foreign directory and compared differentially with `bash -e -c spec` run in the target's directory; "
             "an independent directive reader checks every resource option against a precedence model")
RULE = ("program = (spec, working directory name, options from backend default / workflow default / template / per-target "
        "keyword incl. None and unknown keys, backend slurm(full|merged|none)|sge|lsf, clean_logs on/off, pre-filled log "
        "directory). Specs come from a grammar: 1-7 lines of echo / variable / $(...) / quoting / here-doc / redirect-to-"
        "file / stderr / if / line continuation / failing command (false, exit n, test) in any position, with or "
        "without trailing newline, leading blank lines and indentation. Working directory names include spaces, quotes, "
        "$, ;, *, &, (, #, ~, unicode. Oracle: the script contains the spec verbatim; executed by bash with the "
        "redirections its own directives request it produces the same stdout, stderr, exit status and files as "
        "`bash -e -c spec` in the target's directory; each resource directive carries the value of the precedence model "
        "(SGE memory: per-core*cores <= total < (per-core+1)*cores), no flag twice, None -> absent, unknown -> absent "
        "and named in a warning; logs land where the log mode says and `gwf logs [-e]` ends with the last run's output; "
        "`gwf run` removes only logs whose base name is not a current target and none with clean_logs off. "
        "Non-trivial: spec has >=2 lines with a failing command not in last position, or the directory name holds a "
        "shell-special character, or >=2 option sources disagree. Distinct = SHA-1 of canonical case JSON.")
ASSUMPTIONS = [
    "the scheduler's handling of the output directives is simulated: --output/--error (truncate; stderr joins stdout when only --output is given), -o/-e for SGE (append), -oo/-eo for LSF (overwrite)",
    "memory values are integers with an optional unit suffix (the documented form)",
    "bash is the interpreter named by the script's shebang",
]
BUDGET = {
    "quick": {"examples": 250, "wall_s": 100, "shards": 4},
    "thorough": {"examples": 8000, "wall_s": 1500, "shards": 16},
}

WDS = ["plain", "with space", "quo'te", 'dq"x', "dol$HOME", "semi;colon", "star*", "ünï", "amp&x", "paren(x)",
       "hash#x", "tilde~", "two  spaces", "a`b", "nested/sub dir", "pipe|x", "ex!cl", "br{a,b}", "-dash",
       "run {cores} {std_out}", "{job_name}", "m{memory}q{queue}"]
SPECIAL = re.compile(r"[^A-Za-z0-9_./-]")

LINES = [
    "echo hello", "echo 'single $quoted'", 'X=val; echo "$X and more"', "echo $(echo sub)", "echo err >&2",
    "echo data > made_{i}.txt", "touch made_{i}.dat", "if true; then echo yes; fi", "true", ":",
    "printf '%s\\n' a b c", "echo one \\\n  two", "cat <<EOF\nhere $((1+2)) doc\n  indented\nEOF",
    "  echo indented", "echo \"tab\there\"", "for i in 1 2; do echo $i; done", "echo $0 > /dev/null",
    "echo pwd=$(basename \"$PWD\")", "ls made_* 2>/dev/null | wc -l", "echo 'semi;colon' ; echo again",
    "false || echo recovered", "! false", "test -f missing_{i} && echo found",
    # shell variables and braces that look like the place-holders of a backend's script template
    'cores=3; memory=9; echo "n=${cores} m=${memory}g q=${queue:-none}"', "echo '{cores} {memory} {queue} {job_name}'",
    "echo {std_out} {std_err} > made_{i}.tpl", "echo ${job_name:-unnamed} {walltime} {account}",
    # characters that Python's str.splitlines() treats as line ends but the shell does not
    "printf 'left\rright' > made_{i}.cr", "echo 'page1\x0cpage2'", "echo 'a\x0bb' 'fs\x1cgs\x1drs\x1eend'",
    "echo 'nel\x85x ls\u2028x ps\u2029x'", "cat <<EOF\ncr\rlf in a here document\nEOF",
    # more than 64 KiB of two-byte characters (lines of odd length, so that any block boundary falls inside a character)
    "n=0; while [ $n -lt 4000 ]; do echo '\u00e9\u00e9\u00e9\u00e9\u00e9\u00e9\u00e9\u00e9\u00e9'; n=$((n+1)); done",
]
FAILING = ["false", "exit 3", "test -f definitely_missing", "(exit 7)", "ls /nonexistent_dir_xyz 2>/dev/null", "[ 1 = 2 ]"]

SLURM_FLAGS = {"nodes": "-N", "cores": "-c", "memory": "--mem", "walltime": "-t", "queue": "-p", "account": "-A",
               "constraint": "-C", "mail_type": "--mail-type", "mail_user": "--mail-user", "qos": "--qos", "gres": "--gres"}
SLURM_DEFAULTS = {"cores": 1, "memory": "1g", "walltime": "01:00:00", "nodes": None, "queue": None, "account": None,
                  "constraint": None, "mail_type": None, "mail_user": None, "qos": None, "gres": None}
SGE_DEFAULTS = {"cores": 1, "memory": "1g", "walltime": "01:00:00", "queue": None, "account": None}
LSF_DEFAULTS = {"queue": "normal", "memory": "4GB", "cores": 1}
DEFAULTS = {"slurm": SLURM_DEFAULTS, "sge": SGE_DEFAULTS, "lsf": LSF_DEFAULTS}
OPT_VALUES = {
    "cores": [1, 2, 4, 16, None], "memory": ["1g", "8g", "500m", "4GB", "16000", "7g", None, 0],
    "walltime": ["00:10:00", "12:00:00", None], "queue": ["short", "normal,long", None], "account": ["proj1", None],
    "constraint": ["avx2", None], "qos": ["high", None], "mail_type": ["END", None], "mail_user": ["a@b.c", None],
    "gres": ["gpu:1", None], "nodes": [1, 2, None], "bogus_option": ["x", 3, None], "threads": [2, None],
}


@st.composite
def _spec(draw):
    n = draw(st.integers(1, 7))
    lines = []
    fail_pos = draw(st.one_of(st.none(), st.integers(0, n - 1)))
    for i in range(n):
        if fail_pos == i:
            lines.append(draw(st.sampled_from(FAILING)))
        else:
            lines.append(draw(st.sampled_from(LINES)).replace("{i}", str(i)))
    spec = "\n".join(lines)
    spec = draw(st.sampled_from(["", "", "\n", "\n\n", "  \n"])) + spec + draw(st.sampled_from(["\n", "\n", "", "\n\n", "\n  \n"]))
    return spec, fail_pos is not None and fail_pos < n - 1 and n >= 2


@st.composite
def _opts(draw, keys):
    ks = draw(st.lists(st.sampled_from(keys), max_size=4, unique=True))
    return {k: draw(st.sampled_from(OPT_VALUES[k])) for k in ks}


@st.composite
def _case(draw, tier):
    b = draw(st.sampled_from(["slurm", "slurm", "sge", "lsf"]))
    keys = sorted(DEFAULTS[b]) + ["bogus_option", "threads"]
    spec, mid_fail = draw(_spec())

    def opts():
        o = draw(_opts(keys))
        if b != "slurm" and o.get("memory") == 0:
            o["memory"] = "1g"  # an integer memory (Slurm: --mem=0 = all of the node) is only legal for Slurm
        return o

    return {
        "invoke": draw(gen.invoke()),
        "backend": b, "spec": spec, "mid_fail": mid_fail,
        "wd": draw(st.sampled_from(WDS + ["plain", "plain"])),
        "wf_defaults": opts(), "template_options": opts(), "options": opts(),
        "via": draw(st.sampled_from(["target", "template"])),
        "sibling": draw(st.booleans()),
        "log_mode": draw(st.sampled_from([None, "full", "merged", "none"])),
        "clean_logs": draw(st.sampled_from([None, True, False])),
        "config_via": draw(st.sampled_from(["file", "cli"])),
        "second_spec": draw(st.sampled_from(["echo second run\necho e2 >&2\n", "echo other\n"])),
    }


def strategy(tier):
    return _case(tier)


def run_script(script, flavour, stdout_path, stderr_path, jobid, append=False):
    """Execute a submitted script the way the scheduler would: foreign cwd, its own redirections."""
    tmp = tempfile.mkdtemp(prefix="gwfexec", dir=scratch.base())
    try:
        sp = os.path.join(tmp, "job.sh")
        with open(sp, "w") as f:
            f.write(script)
        mode = "ab" if flavour == "sge" or append else "wb"
        out_f = open(stdout_path, mode) if stdout_path else subprocess.DEVNULL
        if stderr_path:
            err_f = open(stderr_path, mode)
        elif flavour == "slurm" and stdout_path:
            err_f = out_f  # only --output given: stderr joins stdout
        else:
            err_f = subprocess.DEVNULL
        env = {"PATH": os.environ.get("PATH", "/usr/bin:/bin"), "HOME": tmp, "SLURM_JOBID": jobid, "SGE_JOBID": jobid,
               "JOB_ID": jobid, "LSB_JOBID": jobid, "LANG": "C.UTF-8"}
        try:
            p = subprocess.run(["bash", sp], cwd=tmp, env=env, stdin=subprocess.DEVNULL, stdout=out_f, stderr=err_f,
                               timeout=30)
        finally:
            for f in (out_f, err_f):
                if hasattr(f, "close"):
                    try:
                        f.close()
                    except OSError:
                        pass
        leaked = sorted(x for x in os.listdir(tmp) if x != "job.sh")
        return p.returncode, leaked
    finally:
        shutil.rmtree(tmp, ignore_errors=True)


def reference(spec, wd):
    env = {"PATH": os.environ.get("PATH", "/usr/bin:/bin"), "HOME": "/nonexistent", "LANG": "C.UTF-8"}
    p = subprocess.run(["bash", "-e", "-c", spec], cwd=wd, env=env, stdin=subprocess.DEVNULL, capture_output=True, timeout=30)
    return p.returncode, p.stdout, p.stderr


def listing(wd):
    out = {}
    for fn in sorted(os.listdir(wd)):
        p = os.path.join(wd, fn)
        if os.path.isfile(p):
            with open(p, "rb") as f:
                out[fn] = f.read()
    return out


def expected_options(case):
    b = case["backend"]
    res = dict(DEFAULTS[b])
    srcs = [case["wf_defaults"]] + ([case["template_options"]] if case["via"] == "template" else []) + [case["options"]]
    for s in srcs:
        res.update(s)
    unknown = sorted(k for k in res if k not in DEFAULTS[b])
    final = {k: v for k, v in res.items() if k in DEFAULTS[b] and v is not None}
    return final, unknown


def mem_parts(v):
    m = re.fullmatch(r"([0-9]+)([A-Za-z]*)", str(v))
    return (int(m.group(1)), m.group(2)) if m else (None, None)


def check_directives(case, job, final, viols):
    b = case["backend"]
    allv = job.directives.get("__all__", [])
    flags = [f for f, _ in allv]
    if b == "slurm":
        for opt, flag in SLURM_FLAGS.items():
            vals = [v for f, v in allv if f == flag]
            if opt in final:
                if vals != [str(final[opt])]:
                    viols.append(Violation({"kind": "directive-value", "backend": b, "option": opt},
                                           f"{opt}: resolved {final[opt]!r}, script has {flag} {vals}"))
            elif vals:
                viols.append(Violation({"kind": "directive-should-be-absent", "backend": b, "option": opt},
                                       f"{opt} resolved to None/absent but script has {flag} {vals}"))
        if [v for f, v in allv if f == "--job-name"] != ["T"]:
            viols.append(Violation({"kind": "job-name"}, str(allv)))
    elif b == "sge":
        lvals = [v for f, v in allv if f == "-l"]
        pe = [v for f, v in allv if f == "-pe"]
        cores = final.get("cores")
        if cores is not None:
            if pe != [f"smp {cores}"]:
                viols.append(Violation({"kind": "directive-value", "backend": b, "option": "cores"}, f"-pe {pe}, cores {cores}"))
        elif pe:
            viols.append(Violation({"kind": "directive-should-be-absent", "backend": b, "option": "cores"}, str(pe)))
        mem = [v for v in lvals if v.startswith("h_vmem=")]
        if "memory" in final:
            total, unit = mem_parts(final["memory"])
            c = cores or 1
            ok = False
            if len(mem) == 1:
                per, u2 = mem_parts(mem[0][len("h_vmem="):])
                ok = per is not None and u2 == unit and per * c <= total < (per + 1) * c
            if not ok:
                viols.append(Violation({"kind": "sge-memory-per-core", "backend": b},
                                       f"memory {final['memory']} over {c} core(s): script has {mem}"))
        elif mem:
            viols.append(Violation({"kind": "directive-should-be-absent", "backend": b, "option": "memory"}, str(mem)))
        rt = [v for v in lvals if v.startswith("h_rt=")]
        if ("walltime" in final) != bool(rt) or (rt and rt != [f"h_rt={final['walltime']}"]):
            viols.append(Violation({"kind": "directive-value", "backend": b, "option": "walltime"}, f"{rt} vs {final.get('walltime')}"))
        for opt, flag in (("queue", "-q"), ("account", "-P")):
            vals = [v for f, v in allv if f == flag]
            if (opt in final and vals != [str(final[opt])]) or (opt not in final and vals):
                viols.append(Violation({"kind": "directive-value" if opt in final else "directive-should-be-absent",
                                        "backend": b, "option": opt}, f"{opt}: resolved {final.get(opt)!r}, script {flag} {vals}"))
        if [v for f, v in allv if f == "-N"] != ["T"]:
            viols.append(Violation({"kind": "job-name"}, str(allv)))
    else:
        for opt, flag in (("cores", "-n"), ("queue", "-q"), ("memory", "-M")):
            vals = [v for f, v in allv if f == flag]
            if opt in final:
                if vals != [str(final[opt])]:
                    viols.append(Violation({"kind": "directive-value", "backend": b, "option": opt},
                                           f"{opt}: resolved {final[opt]!r}, script has {flag} {vals}"))
            elif vals:
                viols.append(Violation({"kind": "directive-should-be-absent", "backend": b, "option": opt},
                                       f"{opt} resolved to None but script has {flag} {vals}"))
        rv = [v for f, v in allv if f == "-R"]
        if "memory" in final:
            m = str(final["memory"])
            if len(rv) != 1 or f"mem>{m}]" not in rv[0] or f"mem={m}]" not in rv[0]:
                viols.append(Violation({"kind": "directive-value", "backend": b, "option": "memory-R"}, str(rv)))
        elif any("mem" in v for v in rv):
            viols.append(Violation({"kind": "directive-should-be-absent", "backend": b, "option": "memory-R"}, str(rv)))
        if [v for f, v in allv if f == "-J"] != ["T"]:
            viols.append(Violation({"kind": "job-name"}, str(allv)))
    for f, v in allv:
        if "{" in v and "}" in v and re.search(r"\{[a-z_]+\}", v):
            viols.append(Violation({"kind": "unfilled-placeholder", "backend": b}, f"{f} {v}"))
    single = {"-c", "--mem", "-t", "-p", "-A", "-C", "--qos", "--gres", "-N", "-n", "-q", "-M", "-J", "--job-name",
              "--output", "--error", "-o", "-e", "-oo", "-eo", "-pe", "-P"}
    for f in set(flags):
        if f in single and flags.count(f) > 1 and not (b == "sge" and f == "-l"):
            vals = {v for ff, v in allv if ff == f}
            if len(vals) > 1:
                viols.append(Violation({"kind": "option-twice", "backend": b}, f"{f} given with {sorted(vals)}"))


def run_case(case):
    b = case["backend"]
    spec = case["spec"]
    t = {"name": "T", "inputs": [], "outputs": [], "spec": spec, "wd": case["wd"], "via": case["via"],
         "options": case["options"], "template_options": case["template_options"] if case["via"] == "template" else {}}
    if case["via"] == "target":
        t["wd"] = None
        t["via"] = "target"
    sib = []
    if t["via"] == "template" and case.get("sibling"):
        # an earlier target made from a template around the same options dictionary, with keyword options of its
        # own: they are its own business
        t["share"] = "opts"
        sib = [{"name": "Sib", "inputs": [], "outputs": [], "spec": "true\n", "wd": None, "via": "template", "share": "opts",
                "template_options": dict(t["template_options"]),
                "options": {k: v for k, v in (("cores", 7), ("queue", "sibq"), ("memory", "3g")) if k in DEFAULTS[b]}}]
    desc = {"targets": sib + [t, {"name": "Keep", "inputs": [], "outputs": [], "spec": "true\n", "wd": None}],
            "defaults": case["wf_defaults"], "files": {}}
    cfg = {}
    if case["log_mode"] and b == "slurm":
        cfg["backend.slurm.log_mode"] = case["log_mode"]
    if case["clean_logs"] is not None:
        cfg["clean_logs"] = case["clean_logs"]
    viols, labels = [], {"backend-" + b}
    final, unknown = expected_options(case)
    with project.Project(desc, backend=b, invoke=case.get("invoke")) as proj:
        proj.write_config(dict({"backend": b}, **cfg), via_cli=case.get("config_via") == "cli")
        wd = proj.path(case["wd"]) if t["wd"] else proj.dir
        os.makedirs(wd, exist_ok=True)
        logs = proj.path(".gwf/logs")
        os.makedirs(logs, exist_ok=True)
        planted = ["T.stdout", "T.stderr", "Keep.stdout", "Gone.stdout", "Gone.stderr", "Old.v1.stdout", "Old.v1.stderr",
                   "notes.txt", "OnlyErr.stderr"]
        for fn in planted:
            with open(os.path.join(logs, fn), "w") as f:
                f.write("planted " + fn + "\n")
        r = proj.gwf(["run", "T"])
        if r.code != 0 or r.crashed:
            kind = "run-crashed" if r.crashed else "run-failed"
            return CaseResult([Violation({"kind": kind, "backend": b, "exc": type(r.exc).__name__ if r.exc else None},
                                         f"options {case['wf_defaults']} / {case['template_options']} / {case['options']}: " + r.brief())],
                              False, sorted(labels))
        # ---- log cleaning
        left = set(os.listdir(logs))
        removed = set(planted) - left
        clean_on = case["clean_logs"] is not False
        current = {"T", "Keep"}
        for fn in sorted(removed):
            base = os.path.splitext(fn)[0]
            if not clean_on:
                viols.append(Violation({"kind": "log-removed-with-cleaning-off"}, fn))
            elif base in current:
                viols.append(Violation({"kind": "log-of-current-target-removed"}, fn))
            elif not (fn.endswith(".stdout") or fn.endswith(".stderr")):
                viols.append(Violation({"kind": "non-log-file-removed"}, fn))
        # ---- the script
        job = proj.sim.latest("T")
        if job is None:
            return CaseResult([Violation({"kind": "not-submitted"}, r.brief())], False, sorted(labels))
        script = job.script
        body = spec if spec.endswith("\n") else spec + "\n"
        if not script.endswith(body) and not script.rstrip("\n").endswith(spec.rstrip("\n")):
            viols.append(Violation({"kind": "spec-not-verbatim", "backend": b}, f"script does not end with the spec: {script[-200:]!r}"))
        elif spec and spec not in script:
            viols.append(Violation({"kind": "spec-not-verbatim", "backend": b}, f"spec text altered: {script[-200:]!r}"))
        check_directives(case, job, final, viols)
        for k in unknown:
            if f"'{k}'" not in r.err and k not in r.err:
                viols.append(Violation({"kind": "unknown-option-no-warning"}, f"{k}: {r.err[-300:]!r}"))
            if any(k in f or k in v for f, v in job.directives.get("__all__", [])):
                viols.append(Violation({"kind": "unknown-option-reached-scheduler"}, k))
        # ---- where the logs are sent
        mode_ = (case["log_mode"] or "full") if b == "slurm" else "full"
        want_out = os.path.join(logs, "T.stdout") if mode_ != "none" else "/dev/null"
        want_err = os.path.join(logs, "T.stderr") if mode_ == "full" else None
        if job.stdout_path != want_out or job.stderr_path != want_err:
            viols.append(Violation({"kind": "log-destination", "backend": b, "mode": mode_},
                                   f"log mode {mode_}: script sends stdout to {job.stdout_path!r} and stderr to {job.stderr_path!r}; "
                                   f"expected {want_out!r} / {want_err!r}"))
            return CaseResult(viols, False, sorted(labels))
        # ---- differential execution
        before = listing(wd)
        rc, leaked = run_script(script, b, job.stdout_path, job.stderr_path, job.id)
        made = {k: v for k, v in listing(wd).items() if before.get(k) != v}
        for k in made:
            os.remove(os.path.join(wd, k)) if k not in before else None
        rrc, rout, rerr = reference(spec, wd)
        rmade = {k: v for k, v in listing(wd).items() if before.get(k) != v}
        for k in rmade:
            if k not in before:
                os.remove(os.path.join(wd, k))
        special_wd = bool(t["wd"]) and bool(SPECIAL.search(case["wd"]))
        sig = {"backend": b, "special_wd": special_wd}
        if leaked:
            viols.append(Violation({"kind": "ran-in-wrong-directory", **sig},
                                   f"files {leaked} appeared in the submit directory, not in {case['wd']!r}"))
        if rc != rrc:
            viols.append(Violation({"kind": "exit-status", **sig}, f"script exit {rc}, `bash -e -c spec` exit {rrc}; spec {spec!r}"))
        if made != rmade:
            viols.append(Violation({"kind": "created-files", **sig},
                                   f"script made {sorted(made)}, reference made {sorted(rmade)} in {case['wd']!r}"))
        mode = (case["log_mode"] or "full") if b == "slurm" else "full"

        def read(p):
            try:
                with open(p, "rb") as f:
                    return f.read()
            except OSError:
                return None

        so, se = read(os.path.join(logs, "T.stdout")), read(os.path.join(logs, "T.stderr"))
        if mode == "full":
            if so is None or not so.endswith(rout) or (b != "sge" and so != rout):
                viols.append(Violation({"kind": "stdout-differs", **sig}, f"log {so!r} vs reference stdout {rout!r}"))
            if se is None or not se.endswith(rerr) or (b != "sge" and se != rerr):
                viols.append(Violation({"kind": "stderr-differs", **sig}, f"log {se!r} vs reference stderr {rerr!r}"))
            lo = proj.gwf(["logs", "--no-pager", "T"])
            le = proj.gwf(["logs", "--no-pager", "-e", "T"])
            # `gwf logs` is a viewer reading text: the file is compared byte for byte above, what the viewer prints
            # is compared up to the representation of line ends (a lone CR or CR LF may be shown as LF)
            def shown_as_text(bs):
                return bs.replace(b"\r\n", b"\n").replace(b"\r", b"\n").rstrip(b"\n")

            if lo.code != 0 or not shown_as_text(lo.out.encode()).endswith(shown_as_text(rout)):
                viols.append(Violation({"kind": "gwf-logs-stdout"}, lo.brief()))
            if le.code != 0 or not shown_as_text(le.out.encode()).endswith(shown_as_text(rerr)):
                viols.append(Violation({"kind": "gwf-logs-stderr"}, le.brief()))
        elif mode == "merged":
            if so is None or sorted(so.splitlines()) != sorted((rout + rerr).splitlines()):
                viols.append(Violation({"kind": "merged-log-differs", **sig}, f"{so!r} vs {rout!r}+{rerr!r}"))
        else:
            if so != b"planted T.stdout\n" and so is not None:
                viols.append(Violation({"kind": "log-written-in-mode-none"}, repr(so)))
        # ---- a later run of the same target: `gwf logs` must show the latest run's output
        if not viols and mode == "full":
            hist.set_job_state(proj.sim, job, "completed")
            job.in_queue = False
            job.in_acct = False
            t["spec"] = case["second_spec"]
            proj.write_desc(desc)
            r5 = proj.gwf(["run", "T"])
            job2 = proj.sim.latest("T")
            if r5.code != 0 or job2 is job:
                viols.append(Violation({"kind": "second-run-failed"}, r5.brief()))
            else:
                lsf_append = b == "lsf" and ("-oo" not in job2.directives or "-eo" not in job2.directives)
                run_script(job2.script, b, job2.stdout_path, job2.stderr_path, job2.id, append=lsf_append)
                rrc2, rout2, rerr2 = reference(case["second_spec"], wd)
                lo = proj.gwf(["logs", "--no-pager", "T"])
                le = proj.gwf(["logs", "--no-pager", "-e", "T"])
                got_o, got_e = lo.out.encode().rstrip(b"\n"), le.out.encode().rstrip(b"\n")
                want_o, want_e = rout2.rstrip(b"\n"), rerr2.rstrip(b"\n")
                exact = b != "sge"  # SGE appends to existing output files by design of `-o`
                if (got_o != want_o or got_e != want_e) if exact else not (got_o.endswith(want_o) and got_e.endswith(want_e)):
                    viols.append(Violation({"kind": "logs-not-latest-run", "backend": b},
                                           f"after a second run `gwf logs` shows {got_o!r} / {got_e!r}; the latest run printed "
                                           f"{want_o!r} / {want_e!r}"))
                labels.add("second-run")
    srcs = [case["wf_defaults"], case["options"]] + ([case["template_options"]] if case["via"] == "template" else [])
    disagree = any(k in a and k in b2 and a[k] != b2[k] for i, a in enumerate(srcs) for b2 in srcs[i + 1:] for k in a)
    if case["mid_fail"]:
        labels.add("failing-command-in-the-middle")
    if special_wd:
        labels.add("special-working-dir")
    if disagree:
        labels.add("option-sources-disagree")
    if unknown:
        labels.add("unknown-option")
    if b == "slurm":
        labels.add("log-mode-" + mode)
    return CaseResult(viols, bool(case["mid_fail"] or special_wd or disagree), sorted(labels))


def extra_phases(tier, seed, shard, nshards, stats, run_one):
    stats.extra["programs"] = stats.evaluations
    stats.extra["disagreements_checked"] = stats.evaluations
