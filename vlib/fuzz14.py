#!/venv/bin/python
"""Coverage-guided campaign for C14 (atheris / libFuzzer).

The fuzzer's bytes are decoded into the same step list that props/c14.py interprets
(connections, healthy requests, raw byte payloads, EOF, process exits, clock), so the
semantic oracle of C14 - not just "no crash" - runs inside the target.  A violating
input is written as a replay JSON (the reproducible unit) before the target raises.

usage: fuzz14.py <corpus_dir> <out_dir> [libFuzzer flags]
"""

import json
import os
import sys

HERE = os.path.dirname(os.path.dirname(os.path.abspath(__file__)))
SRC = os.environ.get("GWF_VERIF_SRC", "/repo/src")
for p in (os.path.join(HERE, ".deps"), HERE, SRC):
    sys.path.insert(0, p)


def decode(data):
    """bytes -> C14 case.  Byte 0: cores.  Then records: opcode byte, connection byte, 1-byte length, payload."""
    if not data:
        return {"cores": 1, "steps": []}
    cores = 1 + data[0] % 3
    steps = []
    i = 1
    while i + 2 < len(data) and len(steps) < 24:
        op, conn, ln = data[i] % 8, data[i + 1] % 3, data[i + 2]
        payload = data[i + 3:i + 3 + ln]
        i += 3 + ln
        if op == 0:
            steps.append(["enqueue", conn, [b % 8 for b in payload[:2]], payload[2] % 40 if len(payload) > 2 else 0])
        elif op == 1:
            steps.append(["raw", conn, (payload + b"\n").decode("latin1")])
        elif op == 2:
            steps.append(["raw", conn, payload.decode("latin1")])
        elif op == 3:
            steps.append(["eof", conn, payload[:8].decode("latin1")])
        elif op == 4:
            steps.append(["exit", payload[0] % 6 if payload else 0, [0, 0, 1, 2][payload[1] % 4] if len(payload) > 1 else 0])
        elif op == 5:
            steps.append(["advance", [0.5, 1, 2, 11][payload[0] % 4] if payload else 1])
        elif op == 6:
            steps.append(["cancel", conn, payload[0] % 8 if payload else 0])
        else:
            steps.append(["states", conn, payload[0] % 40 if payload else 0])
    return {"cores": cores, "steps": steps}


def main():
    import atheris

    with atheris.instrument_imports(include=["gwf.backends.local"]):
        import gwf.backends.local  # noqa: F401
    from props import c14

    corpus, out = sys.argv[1], sys.argv[2]
    os.makedirs(corpus, exist_ok=True)
    os.makedirs(out, exist_ok=True)
    counter = [0]

    def one(data):
        case = decode(data)
        res = c14.run_case(case)
        counter[0] += 1
        if res.violations:
            path = os.path.join(out, f"violation-{counter[0]}.json")
            with open(path, "w") as f:
                json.dump({"property": "C14", "case": case,
                           "violations": [v.to_json() for v in res.violations]}, f, indent=1)
            raise RuntimeError("C14 violation: " + res.violations[0].msg)

    atheris.Setup([sys.argv[0], corpus] + sys.argv[3:], one)
    atheris.Fuzz()


if __name__ == "__main__":
    main()
