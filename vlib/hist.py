"""Helpers shared by the project-history checks (C02, C05-C08, C15-C18)."""

from . import model, simsched
from .runner import HarnessError

VEC_STATES = ("unknown", "submitted", "running", "completed", "failed", "cancelled")
FAIL_KINDS = ("exit", "timeout", "oom", "node_fail")


def dep_ids(flavour, job):
    """Ids named as prerequisites in the submission, via the simulator's own parser.
    Returns (ids, problems)."""
    problems = []
    if flavour == "slurm":
        ids = []
        for kind, xs in job.deps:
            if kind != "afterok":
                problems.append(f"dependency type {kind} instead of afterok")
            ids += xs
        return ids, problems
    if flavour == "sge":
        raw = getattr(job, "raw_hold", [])
        return list(raw), problems
    if flavour == "lsf":
        ids = []
        for kind, tree in job.deps:
            conj = simsched.lsf_is_done_conjunction(tree)
            if conj is None:
                problems.append(f"dependency expression {job.raw_dep!r} is not a conjunction of done()")
                conj = simsched.lsf_ids(tree)
            ids += conj
        return ids, problems
    raise HarnessError(flavour)


def set_job_state(sim, job, state, fail_kind="exit"):
    """Force a job into an abstract state (pre-population; bypasses scheduling legality)."""
    if state == "submitted":
        job.state = simsched.PENDING
    elif state == "running":
        job.state = simsched.RUNNING
    elif state == "completed":
        job.state = simsched.DONE
    elif state == "failed":
        job.state = simsched.FAILED
        job.fail_kind = fail_kind
    elif state == "cancelled":
        job.state = simsched.CANCELLED
    elif state == "unknown":
        job.state = simsched.DONE
        job.in_queue = False
        job.in_acct = False
    else:
        raise HarnessError(state)
    if sim.flavour in ("sge",) and job.ended:
        job.in_queue = False  # SGE's qstat lists only pending/running jobs
    if sim.flavour == "slurm" and job.ended and state != "unknown":
        job.in_queue = False  # finished jobs leave squeue; accounting still has them


def visible_state(flavour, state, accounting=True):
    """What gwf can possibly know: SGE has no accounting source, Slurm without sacct neither."""
    if flavour == "sge" and state in ("completed", "failed", "cancelled"):
        return "unknown"
    if flavour == "slurm" and not accounting and state in ("completed", "failed", "cancelled"):
        return "unknown"
    if flavour == "lsf" and state == "cancelled":
        return "failed"  # LSF shows killed jobs as EXIT
    return state


def prepopulate(proj, R, vector, fail_kinds=None):
    """Reach a backend vector through a real first `gwf run` with every output missing, then
    force each accepted job into the wanted state.  Returns name -> Job."""
    sim = proj.sim
    missing = {p: None for t in R.targets for p in t.outset}
    proj.set_files(missing)
    r = proj.gwf(["run"])
    if r.code != 0:
        raise HarnessError("pre-population run failed: " + r.brief())
    jobs = {}
    for t in R.targets:
        j = sim.latest(t.name)
        if j is None:
            raise HarnessError(f"pre-population: {t.name} was not submitted: " + r.brief())
        jobs[t.name] = j
    for name, j in jobs.items():
        set_job_state(sim, j, vector.get(name, "unknown"), (fail_kinds or {}).get(name, "exit"))
    return jobs
