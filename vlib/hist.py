"""Helpers shared by the project-history checks (C02, C05-C08, C15-C18)."""

from . import model, simsched
from .runner import HarnessError, SubjectFailure

VEC_STATES = ("unknown", "submitted", "running", "completed", "failed", "cancelled")
FAIL_KINDS = ("exit", "timeout", "oom", "node_fail")


def dep_ids(flavour, job):
    """Ids named as prerequisites in the submission, via the simulator's own parser.
    Returns (ids, problems)."""
    problems = []
    if flavour == "slurm":
        ids = []
        for kind, xs in job.deps:
            if kind != "afterok":
                problems.append(f"dependency type {kind} instead of afterok")
            ids += xs
        return ids, problems
    if flavour == "sge":
        raw = getattr(job, "raw_hold", [])
        return list(raw), problems
    if flavour == "lsf":
        ids = []
        for kind, tree in job.deps:
            conj = simsched.lsf_is_done_conjunction(tree)
            if conj is None:
                problems.append(f"dependency expression {job.raw_dep!r} is not a conjunction of done()")
                conj = simsched.lsf_ids(tree)
            ids += conj
        return ids, problems
    raise HarnessError(flavour)


def set_job_state(sim, job, state, fail_kind="exit"):
    """Force a job into an abstract state (pre-population; bypasses scheduling legality)."""
    if state == "submitted":
        job.state = simsched.PENDING
    elif state == "running":
        job.state = simsched.RUNNING
    elif state == "completed":
        job.state = simsched.DONE
    elif state == "failed":
        job.state = simsched.FAILED
        job.fail_kind = fail_kind
    elif state == "cancelled":
        job.state = simsched.CANCELLED
        # cancelled by its owner (sacct: "CANCELLED by <uid>") or by the cluster (bare "CANCELLED")
        job.cancel_by = "user" if job.id.isdigit() and int(job.id) % 2 else None
    elif state == "unknown":
        job.state = simsched.DONE
        job.in_queue = False
        job.in_acct = False
    else:
        raise HarnessError(state)
    if sim.flavour in ("sge",) and job.ended:
        job.in_queue = False  # SGE's qstat lists only pending/running jobs
    if sim.flavour == "slurm" and job.ended and state != "unknown":
        job.in_queue = False  # finished jobs leave squeue; accounting still has them


def visible_state(flavour, state, accounting=True):
    """What gwf can possibly know: SGE has no accounting source, Slurm without sacct neither."""
    if flavour == "sge" and state in ("completed", "failed", "cancelled"):
        return "unknown"
    if flavour == "slurm" and not accounting and state in ("completed", "failed", "cancelled"):
        return "unknown"
    if flavour == "lsf" and state == "cancelled":
        return "failed"  # LSF shows killed jobs as EXIT
    return state


def prepopulate(proj, R, vector, fail_kinds=None):
    """Reach a backend vector through a real first `gwf run` with every output missing, then
    force each accepted job into the wanted state.  Returns name -> Job."""
    sim = proj.sim
    missing = {p: None for t in R.targets for p in t.outset}
    proj.set_files(missing)
    r = proj.gwf(["run"])
    if r.code != 0:
        raise SubjectFailure("pre-population run failed: " + r.brief())
    jobs = {}
    for t in R.targets:
        j = sim.latest(t.name)
        if j is None:
            raise SubjectFailure(f"pre-population: `gwf run` on a fresh project did not submit {t.name}: " + r.brief())
        jobs[t.name] = j
    for name, j in jobs.items():
        set_job_state(sim, j, vector.get(name, "unknown"), (fail_kinds or {}).get(name, "exit"))
    return jobs


# ======================================================================
# Session: a project + simulated scheduler + model bookkeeping, driven step by step


class Session:
    def __init__(self, proj, desc, hashing=False, accounting=True):
        self.proj = proj
        self.sim = proj.sim
        self.flavour = proj.backend
        self.desc = desc
        self.hashing = hashing
        self.accounting = accounting
        self.records = {}  # model: name -> spec text recorded
        self.R = model.Resolved(self._with_files())

    # -- model views ---------------------------------------------------------
    def _with_files(self):
        paths = set(self.desc.get("files", {}))
        for t in self.desc["targets"]:
            T = model.T(t)
            paths |= T.inset | T.outset
        return dict(self.desc, files={p: self.proj.tick_of(p) for p in paths})

    def refresh(self):
        self.R = model.Resolved(self._with_files())
        return self.R

    def names(self):
        return [t["name"] for t in self.desc["targets"]]

    def vector(self):
        vec = {}
        for n in self.names():
            j = self.sim.latest(n)
            if j is None:
                vec[n] = "unknown"
                continue
            st = {simsched.PENDING: "submitted", simsched.RUNNING: "running", simsched.DONE: "completed",
                  simsched.FAILED: "failed", simsched.CANCELLED: "cancelled"}[j.state]
            if self.flavour == "slurm":
                if not j.in_queue and not (self.accounting and j.in_acct):
                    st = "unknown"
            elif not j.in_queue:
                st = "unknown"
            vec[n] = visible_state(self.flavour, st, self.accounting)
        return vec

    def plan(self, requested=None):
        R = self.refresh()
        req = R.endpoints() if requested is None else requested
        return R.plan(req, self.vector(), self.hashing, self.records)

    # -- commands ------------------------------------------------------------
    def run(self, pats=(), dry=False):
        before = len(self.sim.submissions())
        r = self.proj.gwf(["run", *(["--dry-run"] if dry else []), *pats])
        new = self.sim.submissions()[before:]
        if self.hashing:
            for j in new:
                t = next((t for t in self.desc["targets"] if t["name"] == j.name), None)
                if t is not None:
                    self.records[j.name] = t["spec"]
        return r, new

    def touch(self, pats=()):
        R = self.refresh()
        names = self.names()
        selected = model.match_names(names, pats) if pats else R.endpoints()
        cone = R.cone(selected)
        before = self.proj.snapshot()
        r = self.proj.gwf(["touch", *pats], track_fs=True)
        after = self.proj.snapshot()
        order = []
        for kind, rel in r.fs_events:
            if rel in order:
                order.remove(rel)
            order.append(rel)
        changed = [k for k, x, y in self.proj.snap_diff(before, after)
                   if not k.startswith(".gwf/") and k != ".gwfconf.json" and y is not None]
        rest = sorted(set(changed) - set(order), key=lambda k: after[k][3])
        if rest:
            order = sorted(set(order) | set(rest), key=lambda k: after[k][3] if k in after else 0)
        for rel in order:
            if rel in after:
                self.proj.stamp(rel, self.proj.next_tick())
        if r.code == 0 and self.hashing:
            for n in cone:
                self.records[n] = R.by_name[n].spec
        elif self.hashing:
            # the command failed part-way: a target whose outputs were all touched has been touched
            done = set(order) | set(changed)
            for n in cone:
                outs = R.by_name[n].outset
                if outs and outs <= done:
                    self.records[n] = R.by_name[n].spec
        return r, cone

    def clean(self, pats, all_=True):
        R = self.refresh()
        names = self.names()
        selected = model.match_names(names, pats) if pats else set(names)
        if not all_:
            selected -= R.endpoints()
        r = self.proj.gwf(["clean", *(["--all"] if all_ else []), "--force", *pats])
        if r.code == 0 and self.hashing:
            for n in selected:
                self.records.pop(n, None)
        return r, selected

    def set_hashing(self, on):
        r = self.proj.gwf(["config", "set", "use_spec_hashes", "true" if on else "false"])
        if r.code != 0:
            raise SubjectFailure("config set failed: " + r.brief())
        self.hashing = on
        return r

    # -- scheduler side --------------------------------------------------------
    def complete(self, job):
        """A running job ends successfully and has created its declared outputs."""
        self.sim.finish(job.id, ok=True)
        if any(t["name"] == job.name for t in self.desc["targets"]):
            self.proj.produce(job.name)

    def drain(self, choose=None):
        """Run every accepted job to successful completion in a legal order.
        choose(list) -> index lets the generator pick which legal transition happens next."""
        k = 0
        for _ in range(10000):
            self.sim.kill_never_satisfied()
            opts = [("start", j) for j in self.sim.startable()] + [("finish", j) for j in self.sim.running()]
            if not opts:
                break
            i = choose(k, len(opts)) if choose else 0
            k += 1
            kind, j = opts[i % len(opts)]
            if kind == "start":
                self.sim.start(j.id)
            else:
                self.complete(j)
        else:
            raise SubjectFailure("scheduler drain did not terminate")
        stuck = [j for j in self.sim.submissions() if j.state == simsched.PENDING]
        return stuck
