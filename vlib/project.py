"""Scratch projects on a real directory tree, the in-process and sub-process `gwf`
drivers, snapshots, and output parsing."""

import hashlib
import json
import logging
import os
import shutil
import socket
import socketserver
import stat
import subprocess
import sys
import tempfile
import threading

from . import model, scratch, simsched
from .runner import HarnessError, SubjectFailure

BASE_MTIME = 1_500_000_000
PY = sys.executable or "/venv/bin/python"

WORKFLOW_PY = r'''
import json, os, pathlib
from gwf import Workflow, AnonymousTarget

HERE = os.path.dirname(os.path.abspath(__file__))
with open(os.path.join(HERE, "wf.json")) as _f:
    DESC = json.load(_f)


def dec(e):
    if isinstance(e, str):
        return e
    if isinstance(e, list):
        return [dec(x) for x in e]
    if "__p" in e:
        return pathlib.PurePosixPath(e["__p"])
    if "__abs" in e:
        return os.path.join(HERE, e["__abs"])
    if "__pabs" in e:
        return pathlib.PurePosixPath(os.path.join(HERE, e["__pabs"]))
    if "__t" in e:
        return tuple(dec(x) for x in e["__t"])
    if "__d" in e:
        return {k: dec(v) for k, v in e["__d"].items()}
    if "__it" in e:
        return (dec(x) for x in e["__it"])  # a generator: can be walked once
    raise ValueError(e)


_kw = {}
if DESC.get("defaults") is not None:
    _kw["defaults"] = DESC["defaults"]
if DESC.get("workflow_wd") is not None:
    _kw["working_dir"] = os.path.join(HERE, DESC["workflow_wd"])
if DESC.get("wf_link") and "working_dir" not in _kw:
    # the script is shared between projects through a symbolic link; the data lives next to the link
    _kw["working_dir"] = HERE
gwf = Workflow(**_kw)

_SHARED = {}
for t in DESC["targets"]:
    via = t.get("via") or ("template" if t.get("wd") else "target")
    opts = t.get("options") or {}
    if via == "target":
        x = gwf.target(t["name"], inputs=dec(t.get("inputs", [])), outputs=dec(t.get("outputs", [])),
                       protect=dec(t.get("protect", [])) or None, **opts)
        x << t.get("spec", "")
    else:
        kw = {}
        if t.get("wd"):
            # rel_twd: the template names its directory relative to the current directory (only used when every
            # command is invoked from the directory of the workflow file, where that means the same as HERE/wd)
            kw["working_dir"] = t["wd"] if DESC.get("rel_twd") else os.path.join(HERE, t["wd"])
        topts = t.get("template_options") or {}
        if t.get("share"):
            # several templates built around one options dictionary (a module-level OPTIONS = {...})
            topts = _SHARED.setdefault(t["share"], topts)
        tpl = AnonymousTarget(inputs=dec(t.get("inputs", [])), outputs=dec(t.get("outputs", [])),
                              options=topts, protect=dec(t.get("protect", [])),
                              spec=t.get("spec", ""), **kw)
        gwf.target_from_template(t["name"], tpl, **opts)

if DESC.get("obj"):
    # the workflow proper lives under another name; `gwf` is a different workflow of the same file
    globals()[DESC["obj"]] = gwf
    gwf = Workflow()
    gwf.target("Decoy", inputs=[], outputs=["decoy.out"]) << "echo decoy\n"
'''

CLIENT = '''#!{py} -SE
import json, os, socket, sys
s = socket.socket(socket.AF_UNIX, socket.SOCK_STREAM)
s.connect(os.environ["GWF_SIM_SOCK"])
data = sys.stdin.read() if not sys.stdin.isatty() else ""
s.sendall((json.dumps({{"argv": [os.path.basename(sys.argv[0])] + sys.argv[1:], "stdin": data, "pid": os.getppid()}}) + "\\n").encode())
buf = b""
while True:
    c = s.recv(65536)
    if not c:
        break
    buf += c
if not buf:
    os._exit(1)
r = json.loads(buf)
sys.stdout.write(r["out"]); sys.stdout.flush()
sys.stderr.write(r["err"]); sys.stderr.flush()
os._exit(r["rc"])
'''

_BINDIR = [None]


def bindir():
    """Per-process directory with thin scheduler-command clients (for shutil.which and
    for real gwf sub-processes)."""
    if _BINDIR[0] and os.path.isdir(_BINDIR[0]):
        return _BINDIR[0]
    base = scratch.base()
    d = tempfile.mkdtemp(prefix="gwfsimbin", dir=base)
    for name in simsched.CLIENT_NAMES:
        p = os.path.join(d, name)
        with open(p, "w") as f:
            f.write(CLIENT.format(py=PY))
        os.chmod(p, os.stat(p).st_mode | stat.S_IXUSR | stat.S_IXGRP | stat.S_IXOTH)
    _BINDIR[0] = d
    import atexit

    atexit.register(shutil.rmtree, d, True)
    return d


class _FakePopen:
    def __init__(self, sim, argv, kw=None):
        self.sim = sim
        self.kw = kw or {}
        self.argv = argv
        self.args = argv
        self.returncode = None
        self.pid = 4_500_000
        self.stdin = self.stdout = self.stderr = None

    def kill(self):
        pass

    terminate = kill

    def communicate(self, input=None, timeout=None):
        rc, out, err = self.sim.exec(self.argv, input or "")
        self.returncode = rc
        # honour the redirections the caller asked for, like a real process would
        how_err, how_out = self.kw.get("stderr"), self.kw.get("stdout")
        if how_err == subprocess.STDOUT:
            out, err = err + out, None  # notes and warnings are printed before the result
        elif how_err != subprocess.PIPE:
            err = None
        if how_out != subprocess.PIPE:
            out = None
        return out, err

    def wait(self, timeout=None):
        if self.returncode is None:
            self.communicate()
        return self.returncode

    def poll(self):
        return self.returncode

    def __enter__(self):
        return self

    def __exit__(self, *a):
        return False


class Res:
    def __init__(self, args, code, out, err, exc):
        self.args, self.code, self.out, self.err, self.exc = args, code, out, err, exc

    @property
    def crashed(self):
        """An exception other than a clean click error/exit escaped the command."""
        return self.exc is not None and not isinstance(self.exc, SystemExit)

    def status_rows(self):
        rows = {}
        for line in self.out.splitlines():
            toks = line.split()
            if len(toks) >= 3 and toks[-1] in STATUSES:
                rows[toks[-2]] = toks[-1]
        return rows

    def would_submit(self):
        return [l[len("Would submit "):].strip() for l in self.err.splitlines() if l.startswith("Would submit ")]

    def submitting(self):
        return [l[len("Submitting target "):].strip() for l in self.err.splitlines()
                if l.startswith("Submitting target ")]

    def brief(self):
        return f"gwf {' '.join(self.args)} -> exit {self.code}; out={self.out[-300:]!r} err={self.err[-300:]!r} exc={self.exc!r}"


STATUSES = ("shouldrun", "submitted", "running", "completed", "failed", "cancelled")


class Project:
    base_mtime = BASE_MTIME  # mtime of tick 0 (instances may override)
    tick_step = 10  # seconds between two ticks (a fraction exercises sub-second mtimes)

    def __init__(self, desc, backend="slurm", config=None, first_id=1001, subdirs=(), invoke=None):
        """invoke: how the commands of this project are invoked (see gen.invoke): {"plan": [0|1|2, ...] - per
        command, cyclically: from the project root / from a sub-directory (gwf searches upwards) / from a
        directory outside the project with -f <path>; "obj": name under which the workflow object lives in
        workflow.py, next to a decoy workflow called `gwf`; "wf_link": workflow.py is a symbolic link to a
        script kept in another directory}.  Commands given an explicit cwd are not affected."""
        base = scratch.base()
        self.dir = os.path.realpath(tempfile.mkdtemp(prefix="gwfproj", dir=base))
        self.backend = backend
        self.sim = simsched.SimCluster(backend, first_id=first_id) if backend in ("slurm", "sge", "lsf") else None
        self.tick = 0
        self.desc = None
        self._server = None
        self.invoke = dict(invoke or {})
        self.invoke_labels = set()
        self._calls = 0
        if self.invoke.get("wf_link"):
            os.makedirs(self.dir + "_shared")
            with open(os.path.join(self.dir + "_shared", "workflow.py"), "w") as f:
                f.write(WORKFLOW_PY)
            os.symlink(os.path.join(self.dir + "_shared", "workflow.py"), os.path.join(self.dir, "workflow.py"))
            self.invoke_labels.add("workflow-file-symlinked")
        else:
            with open(os.path.join(self.dir, "workflow.py"), "w") as f:
                f.write(WORKFLOW_PY)
        if self.invoke.get("obj"):
            with open(os.path.join(self.dir, "decoy.out"), "w") as f:
                f.write("output of the other workflow in this file\n")
            os.utime(os.path.join(self.dir, "decoy.out"), (BASE_MTIME, BASE_MTIME))
            self.invoke_labels.add("named-workflow-object-with-decoy")
        self.write_desc(desc)
        cfg = {"backend": backend}
        cfg.update(config or {})
        self.write_config(cfg)
        for d in subdirs:
            os.makedirs(os.path.join(self.dir, d), exist_ok=True)
        if self.invoke.get("stale_tmp"):
            # an earlier gwf process died while it was writing its state: half-written temporary files lie about
            os.makedirs(os.path.join(self.dir, ".gwf"), exist_ok=True)
            for fn in (".gwfconf.json.tmp", ".gwf/spec-hashes.json.tmp", f".gwf/{backend}-backend-tracked.json.tmp"):
                with open(os.path.join(self.dir, fn), "w") as f:
                    f.write('{"half": "writ')
            self.invoke_labels.add("stale-temporary-state-files")

    # ------------------------------------------------------------ files
    def path(self, rel):
        return os.path.join(self.dir, rel)

    def write_desc(self, desc):
        self.desc = desc
        with open(self.path("wf.json"), "w") as f:
            d = {k: v for k, v in desc.items() if k != "files"}
            if self.invoke.get("obj"):
                d["obj"] = self.invoke["obj"]
            if self.invoke.get("wf_link"):
                d["wf_link"] = True
            json.dump(d, f)
        for t in desc["targets"]:
            if t.get("wd"):
                os.makedirs(self.path(t["wd"]), exist_ok=True)
        if desc.get("workflow_wd"):
            os.makedirs(self.path(desc["workflow_wd"]), exist_ok=True)

    def write_config(self, cfg, via_cli=False):
        """Write the project configuration, either as a file or - the way a user does it - through
        `gwf config set` with the documented spellings (yes/no for booleans)."""
        if not via_cli:
            with open(self.path(".gwfconf.json"), "w") as f:
                json.dump(cfg, f)
            return
        with open(self.path(".gwfconf.json"), "w") as f:
            json.dump({"backend": cfg.get("backend", self.backend)}, f)
        for k, v in cfg.items():
            text = ("yes" if v else "no") if isinstance(v, bool) else str(v)
            r = self.gwf(["config", "set", "--", k, text])
            if r.code != 0:
                raise SubjectFailure("config set failed: " + r.brief())

    def read_config(self):
        try:
            with open(self.path(".gwfconf.json")) as f:
                return json.load(f)
        except FileNotFoundError:
            return {}

    def set_files(self, files, content=None, symlinks=()):
        """files: rel -> tick | None.  Creates parents of every mentioned path.
        Paths listed in `symlinks` are created as symbolic links to a file kept in _store/ (raw data linked
        into the project); their modification time is the pointee's, the link itself is dated long ago."""
        for rel, tick in files.items():
            p = self.path(rel)
            os.makedirs(os.path.dirname(p), exist_ok=True)
            if tick is None:
                if os.path.lexists(p):
                    os.remove(p)
            else:
                if not os.path.lexists(p):
                    if rel in symlinks:
                        store = self.path(os.path.join("_store", rel.replace("/", "__")))
                        os.makedirs(os.path.dirname(store), exist_ok=True)
                        with open(store, "w") as f:
                            f.write((content or {}).get(rel, f"content of {rel}\n"))
                        os.symlink(store, p)
                        os.utime(p, (BASE_MTIME - 1000, BASE_MTIME - 1000), follow_symlinks=False)
                    else:
                        with open(p, "w") as f:
                            f.write((content or {}).get(rel, f"content of {rel}\n"))
                self.stamp(rel, tick)
            self.tick = max(self.tick, tick or 0)

    def link_out(self, rel, dangling=False):
        """Turn the file `rel` into a symbolic link to a copy kept in _store/ (same content and modification time;
        the link itself is dated long ago).  dangling: `rel` does not exist, the link points to a file yet to be made."""
        p = self.path(rel)
        store = self.path(os.path.join("_store", rel.replace("/", "__")))
        os.makedirs(os.path.dirname(store), exist_ok=True)
        os.makedirs(os.path.dirname(p), exist_ok=True)
        if not dangling:
            st = os.stat(p)
            shutil.copyfile(p, store)
            os.utime(store, ns=(st.st_mtime_ns, st.st_mtime_ns))
            os.remove(p)
        os.symlink(store, p)
        os.utime(p, (BASE_MTIME - 1000, BASE_MTIME - 1000), follow_symlinks=False)

    def stamp(self, rel, tick):
        t = self.base_mtime + tick * self.tick_step
        ns = int(round(t * 1_000_000_000))
        os.utime(self.path(rel), ns=(ns, ns))

    def next_tick(self):
        self.tick += 1
        return self.tick

    def tick_of(self, rel):
        try:
            m = os.stat(self.path(rel)).st_mtime
        except FileNotFoundError:
            return None
        return round((m - self.base_mtime) / self.tick_step, 6)

    def file_state(self, rels):
        return {r: self.tick_of(r) for r in rels}

    def produce(self, name):
        """Abstract execution of target `name`: create its declared outputs, freshly stamped."""
        t = next(x for x in self.desc["targets"] if x["name"] == name)
        T = model.T(t)
        tick = self.next_tick()
        for rel in sorted(T.outset):
            p = self.path(rel)
            os.makedirs(os.path.dirname(p), exist_ok=True)
            with open(p, "a") as f:
                f.write(f"made by {name} at {tick}\n")
            self.stamp(rel, tick)
        return tick

    # ------------------------------------------------------------ snapshots
    def snapshot(self, semantic_state=True):
        snap = {}
        walks = [self.dir] + ([self.dir + "_else"] if os.path.isdir(self.dir + "_else") else [])
        for root, dirs, files in (x for w in walks for x in os.walk(w)):
            dirs[:] = [d for d in dirs if d != "__pycache__"]
            for fn in files:
                p = os.path.join(root, fn)
                rel = os.path.relpath(p, self.dir)
                if rel.startswith("_store" + os.sep):
                    continue  # data kept elsewhere and linked into the project: seen through its link
                if rel.endswith(".json.tmp") and (rel.startswith(".gwf" + os.sep) or rel == ".gwfconf.json.tmp"):
                    continue  # scratch files of gwf's own state writing: they come and go
                try:
                    st = os.stat(p)  # a symbolic link shows the file it points to
                except FileNotFoundError:
                    snap[rel] = ("dangling-link", os.readlink(p))
                    continue
                with open(p, "rb") as f:
                    data = f.read()
                if semantic_state and (rel == ".gwfconf.json" or (rel.startswith(".gwf/") and rel.endswith(".json"))):
                    try:
                        snap[rel] = ("json", json.dumps(json.loads(data or b"{}"), sort_keys=True))
                    except ValueError:
                        snap[rel] = ("badjson", hashlib.sha1(data).hexdigest())
                else:
                    snap[rel] = ("file", len(data), hashlib.sha1(data).hexdigest(), st.st_mtime_ns)
        return snap

    @staticmethod
    def snap_diff(a, b):
        """Differences, treating an absent state file as {}."""
        out = []
        for k in sorted(set(a) | set(b)):
            x, y = a.get(k), b.get(k)
            if x == y:
                continue
            empty = ("json", "{}")
            if (x is None and y == empty) or (y is None and x == empty):
                continue
            out.append((k, x, y))
        return out

    def state_json(self, name):
        try:
            with open(self.path(os.path.join(".gwf", name))) as f:
                return json.load(f)
        except FileNotFoundError:
            return {}

    # ------------------------------------------------------------ drivers
    def where(self, args, cwd=None):
        """Apply the invocation plan: returns (args, cwd)."""
        if cwd is not None or not self.invoke:
            return list(args), cwd or self.dir
        plan = self.invoke.get("plan") or [0]
        mode = plan[self._calls % len(plan)]
        self._calls += 1
        obj = self.invoke.get("obj")
        wf = "workflow.py" + (":" + obj if obj else "")
        if mode == 1:
            d = self.path(os.path.join("_cwd", "deep"))
            os.makedirs(d, exist_ok=True)
            self.invoke_labels.add("invoked-from-subdirectory")
            return (["-f", wf] if obj else []) + list(args), d
        if mode == 2:
            d = self.dir + "_else"
            os.makedirs(d, exist_ok=True)
            self.invoke_labels.add("invoked-from-elsewhere-with--f")
            return ["-f", os.path.join(self.dir, wf)] + list(args), d
        return (["-f", wf] if obj else []) + list(args), self.dir

    def pool_cwd(self):
        """Directory from which a worker pool of this project is started."""
        plan = self.invoke.get("plan") or [0]
        if 1 in plan and not self.invoke.get("obj"):
            d = self.path(os.path.join("_cwd", "deep"))
            os.makedirs(d, exist_ok=True)
            self.invoke_labels.add("pool-started-from-subdirectory")
            return d
        return self.dir

    def gwf(self, args, input=None, cwd=None, extra_env=None, track_fs=False, syspath0=None, purge_root=None):
        """Run one gwf command in-process (fresh workflow load, fresh state files).
        With track_fs, os.utime/os.open(O_CREAT)/open(w) events inside the project are
        recorded in order (Res.fs_events) so the harness can assign logical mtimes."""
        import click
        from click.testing import CliRunner

        import gwf.cli

        args, cwd = self.where([str(a) for a in args], cwd)
        old_cwd = os.getcwd()
        root = logging.getLogger()
        saved_handlers, saved_level = root.handlers[:], root.level
        saved_path = sys.path[:]
        saved_isatty = click._compat.isatty
        saved_popen = subprocess.Popen
        saved_env = dict(os.environ)
        bdir = bindir()
        sim = self.sim

        def popen(argv, *a, **kw):
            if sim is not None and isinstance(argv, (list, tuple)) and argv and \
                    os.path.dirname(str(argv[0])) == bdir:
                return _FakePopen(sim, [str(x) for x in argv], kw)
            return saved_popen(argv, *a, **kw)

        events = []
        saved_utime, saved_open = os.utime, os.open
        if track_fs:
            pdir = self.dir

            def _note(kind, path):
                try:
                    ap = os.path.abspath(os.fspath(path))
                except TypeError:
                    return
                if ap.startswith(pdir + os.sep) and "/.gwf/" not in ap and not ap.endswith(".gwfconf.json"):
                    events.append((kind, os.path.relpath(ap, pdir)))

            def utime(path, *a, **kw):
                r = saved_utime(path, *a, **kw)
                _note("utime", path)
                return r

            def os_open(path, flags, *a, **kw):
                existed = os.path.lexists(path) if isinstance(path, (str, bytes, os.PathLike)) else True
                r = saved_open(path, flags, *a, **kw)
                if flags & (os.O_CREAT | os.O_TRUNC | os.O_WRONLY | os.O_RDWR):
                    _note("create" if not existed else "open-write", path)
                return r

            os.utime, os.open = utime, os_open
        saved_modules = set(sys.modules)
        if syspath0 is not None:
            sys.path.insert(0, syspath0)  # what `python -c` / `python -m` put first: the invoking directory
        os.environ["PATH"] = bdir + os.pathsep + saved_env.get("PATH", "")
        os.environ.pop("NO_COLOR", None)
        if extra_env:
            os.environ.update(extra_env)
        subprocess.Popen = popen
        os.chdir(cwd or self.dir)
        try:
            r = CliRunner().invoke(gwf.cli.main, args, input=input, catch_exceptions=True)
        finally:
            os.utime, os.open = saved_utime, saved_open
            os.chdir(old_cwd)
            subprocess.Popen = saved_popen
            os.environ.clear()
            os.environ.update(saved_env)
            for h in root.handlers[:]:
                if h not in saved_handlers:
                    root.removeHandler(h)
            root.setLevel(saved_level)
            sys.path[:] = saved_path
            click._compat.isatty = saved_isatty
            for name in set(sys.modules) - saved_modules:
                f = getattr(sys.modules[name], "__file__", None) or ""
                if purge_root and f.startswith(purge_root):
                    del sys.modules[name]  # helper modules of the workflow: every invocation is a fresh process
        try:
            err = r.stderr
        except (ValueError, AttributeError):
            err = ""
        res = Res(args, r.exit_code, r.stdout, err, r.exception)
        res.fs_events = events
        return res

    # sub-process driver ---------------------------------------------------
    def serve(self):
        """Start the unix-socket server through which the thin clients reach the simulator."""
        if self._server is not None:
            return self._sock
        proj = self
        self._sock = os.path.join(tempfile.mkdtemp(prefix="gwfsock", dir=scratch.base()), "s")
        self._lock = threading.Lock()

        class H(socketserver.StreamRequestHandler):
            def handle(self):
                line = self.rfile.readline()
                if not line:
                    return
                req = json.loads(line)
                with proj._lock:
                    proj._caller_pid = req.get("pid")
                    try:
                        rc, out, err = proj.sim.exec(req["argv"], req["stdin"])
                    except ProcessKilled:
                        return  # caller is dead; no reply
                self.wfile.write(json.dumps({"rc": rc, "out": out, "err": err}).encode())

        class S(socketserver.ThreadingMixIn, socketserver.UnixStreamServer):
            daemon_threads = True
            allow_reuse_address = True

        self._server = S(self._sock, H)
        th = threading.Thread(target=self._server.serve_forever, kwargs={"poll_interval": 0.05}, daemon=True)
        th.start()
        return self._sock

    def gwf_sub(self, args, input=None, cwd=None, extra_env=None, launcher=None, timeout=120):
        """Run gwf as a real sub-process (PATH holds the thin clients)."""
        sock = self.serve() if self.sim is not None else ""
        env = dict(os.environ)
        env["PATH"] = bindir() + os.pathsep + env.get("PATH", "")
        env["PYTHONPATH"] = os.environ.get("GWF_VERIF_SRC", "/repo/src")
        env["GWF_SIM_SOCK"] = sock
        env["PYTHONHASHSEED"] = "0"
        env.pop("NO_COLOR", None)
        if extra_env:
            env.update(extra_env)
        code = launcher or "from gwf.cli import main; main()"
        args, cwd = self.where([str(a) for a in args], cwd)
        p = subprocess.run([PY, "-c", code, *[str(a) for a in args]], cwd=cwd or self.dir, env=env,
                           input=input, capture_output=True, text=True, timeout=timeout)
        return Res([str(a) for a in args], p.returncode, p.stdout, p.stderr, None)

    def close(self):
        if self._server is not None:
            self._server.shutdown()
            self._server.server_close()
            shutil.rmtree(os.path.dirname(self._sock), ignore_errors=True)
            self._server = None
        if self.invoke_labels:
            from . import runner

            runner.CASE_LABELS.update(self.invoke_labels)
        shutil.rmtree(self.dir, ignore_errors=True)
        shutil.rmtree(self.dir + "_else", ignore_errors=True)
        shutil.rmtree(self.dir + "_shared", ignore_errors=True)

    def __enter__(self):
        return self

    def __exit__(self, *a):
        self.close()


class ProcessKilled(Exception):
    """Raised inside the simulator when the fault plan killed the calling gwf process."""
