"""Virtual-time harness for gwf's local worker pool (Scheduler and Server).

The real `gwf.backends.local.Scheduler` (and `Server.handle_connection`) run on
an event loop whose clock is a harness variable and whose child processes are
`FakeProc` objects.  One generated event at a time is applied and the loop is
stepped until nothing is ready (a *quiescent point*); invariants are evaluated
there, and at the instant of every spawn.

Nothing here imports gwf at module import time except inside World, so the
module under test is always the one check.py put first on sys.path.
"""

import asyncio
import os
import shutil
import signal
import tempfile

from . import scratch
from .runner import HarnessError, SubjectFailure

FAKE_PID_BASE = 5_000_000  # above pid_max (4194304)

FINAL = ("COMPLETED", "FAILED", "KILLED", "CANCELLED")
FAILED_CLASS = ("FAILED", "KILLED")


class VLoop(asyncio.SelectorEventLoop):
    def __init__(self):
        super().__init__()
        self.vtime = 1000.0

    def time(self):
        return self.vtime


def _live_timers(loop):
    return [h for h in loop._scheduled if not h._cancelled]


def settle(loop, limit=20000):
    for _ in range(limit):
        loop.call_soon(loop.stop)
        loop.run_forever()
        if loop._ready:
            continue
        if any(h._when <= loop.time() for h in _live_timers(loop)):
            continue
        return
    raise SubjectFailure("worker pool event loop does not become quiescent")


class FakeProc:
    def __init__(self, world, pid, script, cwd, out, err):
        self.world = world
        self.pid = pid
        self.script = script
        self.cwd = cwd
        self.returncode = None
        self.kill_sent = False
        self.term_immune = False
        self._out = out
        self._err = err
        self._waiters = []
        self.stdout = None
        self.stderr = None
        self.stdin = None

    @property
    def alive(self):
        return self.returncode is None

    async def wait(self):
        if self.returncode is not None:
            return self.returncode
        fut = self.world.loop.create_future()
        self._waiters.append(fut)
        try:
            return await fut
        finally:
            if fut in self._waiters:
                self._waiters.remove(fut)

    async def communicate(self, input=None):
        await self.wait()
        return self._out, self._err

    def _exit(self, rc):
        if self.returncode is not None:
            return
        self.returncode = rc
        self.world.on_proc_exit(self)
        for fut in list(self._waiters):
            if not fut.done():
                fut.set_result(rc)

    def send_signal(self, sig):
        if self.returncode is not None:
            raise ProcessLookupError()  # as asyncio's process transport does once the child was reaped
        if int(sig) != int(signal.SIGKILL) and self.term_immune:
            return  # the script traps or ignores this signal; only SIGKILL is unconditional
        self.kill_sent = True
        self.world.loop.call_soon(self._exit, -int(sig))

    def kill(self):
        self.send_signal(signal.SIGKILL)

    def terminate(self):
        self.send_signal(signal.SIGTERM)


class TaskModel:
    """What the harness knows happened to one accepted task."""

    def __init__(self, idx, tid, name, deps, time_limit, startfail, out, err):
        self.idx = idx
        self.tid = tid
        self.name = name
        self.deps = deps  # list of tids
        self.time_limit = time_limit
        self.startfail = startfail
        self.out = out
        self.err = err
        self.spawns = 0
        self.proc = None
        self.spawn_time = None
        self.exit_rc = None  # exit chosen by the harness (process ended by itself)
        self.timed_out = False
        self.cancel_hit = False  # cancel arrived while the pool showed SUBMITTED/RUNNING
        self.cancel_after_timeout = False
        self.start_failed = False
        self.log_failed = False  # logs dir was absent when the process ended
        self.first_final = None  # (step, state)

    def completed_ok(self):
        return (
            self.proc is not None
            and self.exit_rc == 0
            and not self.cancel_hit
            and not self.timed_out
            and not self.log_failed
        )


class World:
    """One scheduler on one virtual loop; one per case."""

    def __init__(self, cores, with_server=False):
        import gwf.backends.local as local

        self.local = local
        import logging

        logging.getLogger("gwf.backends.local").setLevel(logging.CRITICAL + 10)
        import warnings

        warnings.simplefilter("ignore", RuntimeWarning)  # "coroutine was never awaited" from faulted tasks
        self.cores = cores
        self.loop = VLoop()
        self.loop.set_exception_handler(lambda loop, ctx: None)
        self.dir = tempfile.mkdtemp(prefix="vpool", dir=scratch.base())
        os.makedirs(os.path.join(self.dir, ".gwf", "logs"))
        self.tasks = []  # TaskModel, in submission order
        self.by_tid = {}
        self.by_script = {}
        self.procs = []
        self.violations = []  # (prop, sigdict, msg)
        self.step_no = 0
        self.labels = set()
        self.max_live = 0
        self._patched = []
        self._next_pid = FAKE_PID_BASE
        self.unknown_spawns = 0
        self.harness_errors = []
        self._install()
        asyncio.set_event_loop(self.loop)
        try:
            self.sched = local.Scheduler(working_dir=self.dir, max_cores=cores)
        except Exception:
            self.close()
            raise
        self.server = local.Server(self.sched) if with_server else None

    # -- patching -----------------------------------------------------------
    def _install(self):
        world = self

        async def fake_shell(cmd, *args, **kw):
            # like asyncio: the process exists before the coroutine returns (it still waits for the pipes to be
            # connected); a cancel arriving in that wait makes asyncio kill and reap the half-made process
            p = world.spawn(cmd, kw.get("cwd"))
            try:
                await asyncio.sleep(0)
            except asyncio.CancelledError:
                if p.returncode is None:
                    p._exit(-9)
                raise
            return p

        async def fake_exec(program, *args, **kw):
            script = args[-1] if args else program
            return world.spawn(script, kw.get("cwd"))

        def fake_kill(pid, sig):
            p = world.find_pid(pid)
            if p is None:
                return world._orig["os.kill"](pid, sig)
            if sig != 0:
                p.send_signal(sig)

        def fake_killpg(pgid, sig):
            p = world.find_pid(pgid)
            if p is None:
                return world._orig["os.killpg"](pgid, sig)
            if sig != 0:
                p.send_signal(sig)

        def fake_getpgid(pid):
            p = world.find_pid(pid)
            if p is None:
                return world._orig["os.getpgid"](pid)
            return pid

        self._orig = {
            "shell": asyncio.create_subprocess_shell,
            "exec": asyncio.create_subprocess_exec,
            "sp.shell": asyncio.subprocess.create_subprocess_shell,
            "sp.exec": asyncio.subprocess.create_subprocess_exec,
            "os.kill": os.kill,
            "os.killpg": os.killpg,
            "os.getpgid": os.getpgid,
        }
        asyncio.create_subprocess_shell = fake_shell
        asyncio.create_subprocess_exec = fake_exec
        asyncio.subprocess.create_subprocess_shell = fake_shell
        asyncio.subprocess.create_subprocess_exec = fake_exec
        os.kill = fake_kill
        os.killpg = fake_killpg
        os.getpgid = fake_getpgid
        # names imported into the module under test (`from asyncio import create_subprocess_shell`, `from os import killpg`)
        self._module_names = {}
        for name, fake in (("create_subprocess_shell", fake_shell), ("create_subprocess_exec", fake_exec),
                           ("killpg", fake_killpg), ("kill", fake_kill), ("getpgid", fake_getpgid)):
            if hasattr(self.local, name) and callable(getattr(self.local, name)) and \
                    getattr(getattr(self.local, name), "__module__", "").split(".")[0] in ("asyncio", "os", "posix", "nt"):
                self._module_names[name] = getattr(self.local, name)
                setattr(self.local, name, fake)

    def close(self):
        o = self._orig
        asyncio.create_subprocess_shell = o["shell"]
        asyncio.create_subprocess_exec = o["exec"]
        asyncio.subprocess.create_subprocess_shell = o["sp.shell"]
        asyncio.subprocess.create_subprocess_exec = o["sp.exec"]
        os.kill = o["os.kill"]
        os.killpg = o["os.killpg"]
        os.getpgid = o["os.getpgid"]
        for name, real in getattr(self, "_module_names", {}).items():
            setattr(self.local, name, real)
        try:
            # cancel whatever is left so no coroutine outlives the case
            for t in asyncio.all_tasks(self.loop):
                t.cancel()
            for _ in range(50):
                for p in self.procs:
                    if p.alive:
                        p._exit(-9)
                self.loop.vtime += 100.0
                self.loop.call_soon(self.loop.stop)
                self.loop.run_forever()
                if not asyncio.all_tasks(self.loop):
                    break
            self.loop.set_exception_handler(lambda loop, ctx: None)
        finally:
            asyncio.set_event_loop(None)
            self.loop.close()
            shutil.rmtree(self.dir, ignore_errors=True)

    def find_pid(self, pid):
        for p in self.procs:
            if p.pid == pid:
                return p
        return None

    # -- observations -------------------------------------------------------
    def viol(self, prop, sig, msg):
        sig = dict(sig)
        self.violations.append((prop, sig, f"step {self.step_no}: {msg}"))

    def state(self, tid):
        s = self.sched.task_states.get(tid)
        return None if s is None else s.name

    def live(self):
        return [p for p in self.procs if p.alive]

    def logs_present(self):
        return os.path.isdir(os.path.join(self.dir, ".gwf", "logs"))

    def spawn(self, script, cwd):
        if not isinstance(script, (str, bytes)):
            raise ValueError("cmd must be a string")  # what asyncio.create_subprocess_shell does
        if cwd is not None and not isinstance(cwd, (str, bytes, os.PathLike)):
            raise TypeError(f"expected str, bytes or os.PathLike object, not {type(cwd).__name__}")
        tm = self.by_script.get(script)
        if tm is None:
            self.unknown_spawns += 1
            self.harness_errors.append(f"spawn of a script the harness never submitted: {script!r}")
            raise HarnessError(self.harness_errors[-1])
        tm.spawns += 1
        if tm.spawns > 1:
            self.viol("C13", {"kind": "respawn"}, f"task {tm.idx} was started a second time")
        # C11: every dependency must have completed successfully by now
        for d in tm.deps:
            dm = self.by_tid.get(d)
            if dm is None:
                continue
            if not dm.completed_ok():
                what = (
                    "cancelled" if dm.cancel_hit else
                    "timed out" if dm.timed_out else
                    "not finished" if dm.proc is None or dm.exit_rc is None else
                    f"exited {dm.exit_rc}"
                )
                self.viol(
                    "C11",
                    {"kind": "started-before-deps-ok"},
                    f"task {tm.idx} started although dependency {dm.idx} {what}",
                )
        if tm.cancel_hit:
            self.viol("C13", {"kind": "started-after-cancel"},
                      f"task {tm.idx} was started after it had been cancelled")
        if tm.startfail:
            tm.start_failed = True
            self.labels.add("start-failure")
            raise FileNotFoundError(2, "No such file or directory", cwd)
        pid = self._next_pid
        self._next_pid += 1
        p = FakeProc(self, pid, script, cwd, tm.out, tm.err)
        p.term_immune = bool(getattr(tm, "term_immune", False))
        tm.proc = p
        tm.spawn_time = self.loop.time()
        self.procs.append(p)
        n = len(self.live())
        self.max_live = max(self.max_live, n)
        if n > self.cores:
            self.viol(
                "C12",
                {"kind": "too-many-live"},
                f"{n} task processes alive on a pool of {self.cores} core(s) "
                f"when task {tm.idx} was started",
            )
        return p

    def on_proc_exit(self, proc):
        pass

    # -- events ---------------------------------------------------------------
    def run_coro(self, coro):
        t = self.loop.create_task(coro)
        settle(self.loop)
        if not t.done():
            raise SubjectFailure("scheduler coroutine did not finish at a quiescent point")
        return t.result()

    def step_loop(self, n):
        """Run exactly n iterations of the event loop (the next step of the history then acts at whatever await
        point the tasks have reached, instead of at a quiescent point)."""
        for _ in range(n):
            self.loop.call_soon(self.loop.stop)
            self.loop.run_forever()

    def submit(self, dep_idxs, time_limit, startfail, out=b"", err=b"", term_immune=False, pause=None):
        idx = len(self.tasks)
        deps = []
        for i in dep_idxs:
            if self.tasks:
                d = self.tasks[i % len(self.tasks)].tid
                if d not in deps:
                    deps.append(d)
        # dots are legal in target names (families such as Map.sample_1, versions such as v1.2_align)
        name = f"t{idx}" if idx % 3 == 0 else f"t{idx - idx % 3}.part{idx % 3}" if idx % 3 == 1 else f"v{idx}.2_x"
        script = f"# task {idx}\nexit 0"
        if idx % 5 == 4:
            # a target without a spec (it only groups other targets): a script of nothing but white space
            # (of a length of its own, so that the fake process can be told apart)
            script = " " * (idx + 1) + "\n"
        # registered before the pool sees it: the task may be started while
        # enqueue_task is still being settled
        tm = TaskModel(idx, None, name, deps, time_limit, startfail, out, err)
        tm.term_immune = term_immune
        self.by_script[script] = tm
        if pause is None:
            tid = self.run_coro(
                self.sched.enqueue_task(name, script, self.dir, time_limit, list(deps))
            )
        else:
            t = self.loop.create_task(self.sched.enqueue_task(name, script, self.dir, time_limit, list(deps)))
            for _ in range(50):
                if t.done():
                    break
                self.step_loop(1)
            if not t.done():
                raise SubjectFailure("enqueue_task did not return")
            tid = t.result()
            self.labels.add("next-step-at-an-await-point")
        if tid in self.by_tid:
            self.viol("C14", {"kind": "duplicate-id"}, f"task id {tid!r} handed out twice")
        tm.tid = tid
        self.tasks.append(tm)
        self.by_tid[tid] = tm
        if pause is None:
            settle(self.loop)
        else:
            self.step_loop(pause)
        return tm

    def register_external(self, tid, name, script, deps, time_limit):
        """A task accepted through the wire protocol (C14)."""
        idx = len(self.tasks)
        tm = TaskModel(idx, tid, name, deps, time_limit, False, b"", b"")
        self.tasks.append(tm)
        self.by_tid[tid] = tm
        self.by_script[script] = tm
        return tm

    def exit_proc(self, k, rc):
        live = [p for p in self.live() if not p.kill_sent]
        if not live:
            return None
        p = live[k % len(live)]
        tm = self.by_script[p.script]
        tm.exit_rc = rc
        if not self.logs_present():
            tm.log_failed = True
            self.labels.add("log-failure")
        p._exit(rc)
        settle(self.loop)
        return tm

    def cancel(self, k):
        if not self.tasks:
            return None
        tm = self.tasks[k % len(self.tasks)]
        seen = {}

        async def cancel_now():
            # the state is read in the very loop iteration in which the request is handled: when the previous step
            # did not let the loop come to rest, tasks may still move between this call and that iteration
            seen["before"] = self.state(tm.tid)
            seen["had_proc"] = tm.proc is not None
            await self.sched.cancel_task(tm.tid)

        self.run_coro(cancel_now())
        settle(self.loop)
        before = seen["before"]
        after = self.state(tm.tid)
        if before in ("SUBMITTED", "RUNNING"):
            if tm.timed_out:
                tm.cancel_after_timeout = True
                self.labels.add("cancel-during-kill-sequence")
            tm.cancel_hit = True
            if tm.proc is not None and before == "RUNNING":
                self.labels.add("cancel-running")
            elif self._deps_ok(tm):
                self.labels.add("cancel-waiting-core")
            else:
                self.labels.add("cancel-waiting-deps")
        else:
            self.labels.add("cancel-final")
            if after != before:
                self.viol("C13", {"kind": "cancel-changed-final"},
                          f"cancelling finished task {tm.idx} changed {before} -> {after}")
        return tm

    def _deps_ok(self, tm):
        return all(self.by_tid[d].completed_ok() for d in tm.deps if d in self.by_tid)

    def advance(self, dt):
        target = self.loop.vtime + dt
        for _ in range(10000):
            timers = [h._when for h in _live_timers(self.loop)]
            nxt = min(timers) if timers else None
            if nxt is None or nxt > target:
                break
            self.loop.vtime = max(self.loop.vtime, nxt)
            self._mark_timeouts()
            settle(self.loop)
        self.loop.vtime = target
        self._mark_timeouts()
        settle(self.loop)

    def _mark_timeouts(self):
        now = self.loop.time()
        for tm in self.tasks:
            if (
                tm.proc is not None
                and tm.proc.alive
                and not tm.proc.kill_sent
                and tm.time_limit is not None
                and now >= tm.spawn_time + tm.time_limit
                and not tm.timed_out
            ):
                tm.timed_out = True
                self.labels.add("timeout")

    def set_logs(self, present):
        d = os.path.join(self.dir, ".gwf", "logs")
        if present:
            os.makedirs(d, exist_ok=True)
        else:
            shutil.rmtree(d, ignore_errors=True)

    # -- invariants -----------------------------------------------------------
    def check_point(self, seen_final):
        """Evaluate invariants at a quiescent point."""
        if self.harness_errors:
            raise HarnessError(self.harness_errors[0])
        live = self.live()
        if len(live) > self.cores:
            self.viol("C12", {"kind": "too-many-live"},
                      f"{len(live)} processes alive on {self.cores} core(s)")
        settled = not self._kill_sequence_timers()
        for tm in self.tasks:
            st = self.state(tm.tid)
            if st is None:
                self.viol("C14", {"kind": "task-lost"}, f"task {tm.idx} vanished from the state table")
                continue
            # stability of final states
            prev = seen_final.get(tm.tid)
            if prev is not None and st != prev:
                self.viol("C13", {"kind": "final-state-changed"},
                          f"task {tm.idx} changed from final {prev} to {st}")
            if prev is None and st in FINAL:
                seen_final[tm.tid] = st
                if st == "COMPLETED" and tm.completed_ok():
                    self._check_logs(tm)  # read when the task finishes, before later faults
            # a process that ended by itself must be reflected immediately
            if tm.exit_rc is not None and not tm.cancel_hit and not tm.timed_out and not tm.log_failed:
                want = ("COMPLETED",) if tm.exit_rc == 0 else ("FAILED",)
                if st not in want:
                    self.viol("C13", {"kind": "wrong-final", "want": want[0], "got": st},
                              f"task {tm.idx} exited {tm.exit_rc} but is {st}")
            if st == "COMPLETED" and not tm.completed_ok():
                self.viol("C13", {"kind": "completed-without-success"},
                          f"task {tm.idx} is COMPLETED but its process did not run to exit 0")
            if tm.cancel_hit and st not in ("CANCELLED",) + (FAILED_CLASS if tm.cancel_after_timeout else ()):
                self.viol("C13", {"kind": "cancel-not-cancelled", "got": st},
                          f"task {tm.idx} was cancelled while {'running' if tm.proc else 'waiting'} but is {st}")
        if settled:
            for tm in self.tasks:
                if (tm.cancel_hit or tm.timed_out) and tm.proc is not None and tm.proc.alive:
                    self.viol("C13", {"kind": "process-survives-cancel-or-timeout"},
                              f"process of task {tm.idx} is still alive although the task was "
                              f"{'cancelled' if tm.cancel_hit else 'timed out'} and no kill sequence is pending")
            ready = [
                tm for tm in self.tasks
                if self.state(tm.tid) == "SUBMITTED" and not tm.cancel_hit and tm.spawns == 0
                and self._deps_ok(tm)
            ]
            if ready and len(live) < self.cores:
                self.viol(
                    "C12", {"kind": "idle-core"},
                    f"{len(live)} of {self.cores} core(s) busy while task(s) "
                    f"{[t.idx for t in ready]} are ready to run",
                )

    def _kill_sequence_timers(self):
        """Timers other than the time limits of running tasks (the harness knows
        those: spawn time + limit).  Anything else means some task is inside
        its kill sequence, where a core is legitimately held without a process."""
        limits = [
            tm.spawn_time + tm.time_limit
            for tm in self.tasks
            if tm.proc is not None and tm.time_limit is not None
            and tm.proc.alive and not tm.proc.kill_sent and not tm.timed_out
        ]
        rest = list(_live_timers(self.loop))
        for x in limits:  # multiset difference: one timer per running time limit
            for h in rest:
                if abs(h._when - x) < 1e-6:
                    rest.remove(h)
                    break
        return rest

    def drain(self, seen_final):
        """Finish every live process successfully, run out every timer."""
        for _ in range(2000):
            live = [p for p in self.live() if not p.kill_sent]
            timers = _live_timers(self.loop)
            if live:
                self.exit_proc(0, 0)
            elif timers:
                self.advance(max(0.0, min(h._when for h in timers) - self.loop.time()) + 0.001)
            else:
                settle(self.loop)
                if not self.live() and not _live_timers(self.loop) and not self.loop._ready:
                    break
            self.step_no += 1
            self.check_point(seen_final)
        else:
            raise SubjectFailure("worker pool drain did not terminate")

    def final_checks(self):
        for tm in self.tasks:
            st = self.state(tm.tid)
            adm = self.admissible(tm)
            if st not in FINAL:
                self.viol("C13", {"kind": "never-final", "stuck": st,
                                  "cause": self.cause(tm)},
                          f"task {tm.idx} is still {st} after every process ended and every timer fired "
                          f"({self.cause(tm)})")
                if self.cause(tm) == "dependency" and any(not self.by_tid[d].completed_ok() for d in tm.deps if d in self.by_tid):
                    self.viol("C11", {"kind": "dependent-never-final", "stuck": st},
                              f"task {tm.idx} was never started because a dependency did not complete, but it stays {st} "
                              f"instead of ending failed or cancelled")
                continue
            if adm is not None and st not in adm:
                prop = "C11" if tm.proc is None and not tm.start_failed and not tm.cancel_hit else "C13"
                self.viol(prop, {"kind": "wrong-final", "cause": self.cause(tm), "got": st},
                          f"task {tm.idx} ended {st}; admissible {sorted(adm)} ({self.cause(tm)})")
            if tm.proc is not None and tm.proc.alive:
                self.viol("C13", {"kind": "process-left-running"},
                          f"process of task {tm.idx} still alive at the end")

    def cause(self, tm):
        if tm.cancel_hit:
            return "cancelled"
        if tm.start_failed:
            return "start-failure"
        if tm.proc is not None:
            if tm.timed_out:
                return "timeout"
            if tm.log_failed:
                return "log-failure"
            return "exit-0" if tm.exit_rc == 0 else "exit-nonzero"
        return "dependency"

    def admissible(self, tm):
        if tm.cancel_hit:
            return {"CANCELLED"} | (set(FAILED_CLASS) if tm.cancel_after_timeout else set())
        if tm.start_failed:
            return set(FAILED_CLASS)
        if tm.proc is not None:
            if tm.timed_out:
                return set(FAILED_CLASS)
            if tm.log_failed:
                return None  # any final state
            if tm.exit_rc == 0:
                return {"COMPLETED"}
            return {"FAILED"}
        # never started, never cancelled: a dependency must be to blame
        adm = set()
        for d in tm.deps:
            ds = self.state(d)
            if ds in FAILED_CLASS:
                adm |= set(FAILED_CLASS)
            elif ds == "CANCELLED":
                adm |= {"CANCELLED"}
        if not adm:
            adm = {"<started>"}
        return adm

    def _check_logs(self, tm):
        base = os.path.join(self.dir, ".gwf", "logs", tm.name)
        for ext, want in ((".stdout", tm.out), (".stderr", tm.err)):
            try:
                with open(base + ext, "rb") as f:
                    got = f.read()
            except OSError:
                got = None
            if got != want:
                self.viol("C13", {"kind": "log-incomplete", "stream": ext},
                          f"log {tm.name}{ext} has {None if got is None else len(got)} bytes, "
                          f"process wrote {len(want)}")


def run_history(case):
    """Interpret one generated history.  Returns (violations, labels, info)."""
    w = World(case["cores"])
    seen_final = {}
    try:
        for step in case["steps"]:
            w.step_no += 1
            op = step[0]
            paused = op == "submit" and len(step) > 7 and step[7] is not None
            if op in ("exit", "advance", "logs"):
                settle(w.loop)  # only a cancel or another submission acts at the await point a paused submit left
            if op == "submit":
                _, deps, tl, sf, osz, esz = step[:6]
                tm = w.submit(deps, tl, sf, _payload(osz, b"o"), _payload(esz, b"e"),
                              term_immune=bool(step[6]) if len(step) > 6 else False,
                              pause=step[7] if len(step) > 7 else None)
            elif op == "exit":
                w.exit_proc(step[1], step[2])
            elif op == "cancel":
                w.cancel(step[1])
            elif op == "advance":
                w.advance(step[1])
            elif op == "logs":
                w.set_logs(step[1])
            else:
                raise HarnessError(f"unknown step {step!r}")
            if not paused:
                w.check_point(seen_final)  # invariants are stated for quiescent points
        settle(w.loop)
        w.set_logs(True)
        w.drain(seen_final)
        w.final_checks()
        info = _info(w, case)
        return list(w.violations), set(w.labels), info
    finally:
        w.close()


def _payload(n, ch):
    return (ch * n) if n else b""


def _info(w, case):
    tasks = w.tasks
    info = {
        "n_tasks": len(tasks),
        "max_live": w.max_live,
        "dep_not_ok_with_multi": any(
            len(t.deps) >= 2 and any(not w.by_tid[d].completed_ok() for d in t.deps) for t in tasks
        ),
        "skipped_dependents": sum(1 for t in tasks if t.proc is None and not t.start_failed and not t.cancel_hit and t.deps),
        "cancel_hits": sum(1 for t in tasks if t.cancel_hit),
        "cancel_running": sum(1 for t in tasks if t.cancel_hit and t.proc is not None),
        "timeouts": sum(1 for t in tasks if t.timed_out),
        "start_failures": sum(1 for t in tasks if t.start_failed),
        "log_failures": sum(1 for t in tasks if t.log_failed),
    }
    return info
