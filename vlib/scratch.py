"""One scratch directory per check run: every temporary directory of the harness is created below it and the
entry point removes the whole tree when the run ends (worker processes started by multiprocessing leave through
os._exit, so their atexit handlers never run)."""

import os
import shutil
import tempfile


def base():
    d = os.environ.get("VERIF_SCRATCH")
    if d and os.path.isdir(d):
        return d
    return "/dev/shm" if os.path.isdir("/dev/shm") else None


def create():
    parent = "/dev/shm" if os.path.isdir("/dev/shm") else None
    d = tempfile.mkdtemp(prefix="gwfverif", dir=parent)
    os.environ["VERIF_SCRATCH"] = d
    return d


def remove(d):
    shutil.rmtree(d, ignore_errors=True)
    if os.environ.get("VERIF_SCRATCH") == d:
        del os.environ["VERIF_SCRATCH"]
