"""Real-socket tier for C14: a real `gwf workers` pool (started through the command line, in its own process),
`gwf -b local` sub-processes as the healthy client, and misbehaving clients on raw TCP sockets.

What only real sockets and a real process show: replies written to a connection the peer has already closed (EPIPE /
SIGPIPE), a client that never reads its replies (back-pressure on one connection), and the pool process dying."""

import json
import os
import socket
import subprocess
import time

from hypothesis import strategies as st

from . import gen, project
from .realpool import Pool, pid_alive
from .runner import SubjectFailure

ROGUE = ["hangup-pending", "hangup-pending", "garbage", "half-line", "flood-noread", "cancel-unknown", "wrong-shape",
         "hangup-mid-reply", "many-sessions"]


@st.composite
def case(draw):
    acts = draw(st.lists(st.tuples(st.sampled_from(ROGUE), st.integers(2, 50)), min_size=2, max_size=6))
    return {"kind": "real-rogue", "actions": [list(a) for a in acts], "invoke": draw(gen.invoke(objs=False))}


def _line(kind, **kw):
    return (json.dumps(dict(__kind__=kind, **kw)) + "\n").encode()


def run(case):
    """Returns (violations [(sig, msg)], labels, nontrivial)."""
    viols, labels = [], {"real-socket", "real-processes"}

    def v(kind, msg, **sig):
        viols.append(({"kind": kind, "tier": "real-socket", **sig}, msg))

    with project.Project({"targets": [], "files": {}}, backend="local", invoke=case.get("invoke")) as proj:
        journal = proj.path("journal.txt")
        open(journal, "w").close()

        def spec(name, secs):
            return (f'echo "start {name} $$" >> {journal}\nsleep {secs}\necho out-of-{name}\n'
                    f'echo made > {name}.out\necho "end {name}" >> {journal}\n')

        targets = [
            {"name": "slow", "inputs": [], "outputs": ["slow.out"], "spec": spec("slow", 2.0), "wd": None},
            {"name": "after", "inputs": ["slow.out"], "outputs": ["after.out"], "spec": spec("after", 0.05), "wd": None},
            {"name": "side", "inputs": [], "outputs": ["side.out"], "spec": spec("side", 0.05), "wd": None},
        ]
        proj.write_desc({"targets": targets, "files": {}})
        pool = Pool(proj.dir, 2, cwd=proj.pool_cwd(), nofile=256)
        held = []  # sockets kept open until the end
        try:
            proj.write_config({"backend": "local", "backend.local.port": pool.port, "backend.local.host": "127.0.0.1"})

            def healthy(args, what):
                try:
                    r = proj.gwf_sub(args, timeout=25)
                except subprocess.TimeoutExpired:
                    v("healthy-client-not-served", f"`gwf {' '.join(args)}` ({what}) got no answer from the pool within 25 s "
                      f"after {done}", after=done[-1] if done else None)
                    return None
                if r.code != 0:
                    v("healthy-client-failed", f"`gwf {' '.join(args)}` ({what}) after {done}: {r.brief()}",
                      after=done[-1] if done else None)
                    return None
                return r

            done = []
            if healthy(["run"], "first submission") is None:
                return viols, labels, False
            for act, k in case["actions"]:
                done.append(act)
                labels.add("rogue-" + act)
                try:
                    s = socket.create_connection(("127.0.0.1", pool.port), timeout=5)
                except OSError as exc:
                    v("pool-not-accepting-connections", f"after {done[:-1]}: {exc}")
                    break
                try:
                    if act == "many-sessions":
                        # nothing misbehaves here: several hundred well-behaved sessions in a row (status polled in a
                        # loop) against a pool with the usual limit on open files
                        s.close()
                        for n_ in range(300 + 4 * k):
                            c = socket.create_connection(("127.0.0.1", pool.port), timeout=10)
                            c.sendall(_line("get_task_states"))
                            f = c.makefile("rb")
                            if not f.readline():
                                v("healthy-client-not-served", f"well-behaved session number {n_ + 1} in a row got no answer", after=act)
                                c.close()
                                break
                            c.sendall(_line("close"))
                            f.close()
                            c.close()
                    elif act == "hangup-pending":
                        # k requests in one write, then gone without reading a single reply
                        s.sendall(_line("get_task_states") * k)
                        s.close()
                    elif act == "hangup-mid-reply":
                        s.sendall(_line("get_task_states") * k)
                        s.recv(10)
                        s.close()
                    elif act == "garbage":
                        s.sendall(b"\xff\xfe{{{ not json\n" + b"[1, 2\n" + _line("nope"))
                        s.close()
                    elif act == "half-line":
                        s.sendall(b'{"__kind__": "enqueue_task", "name": "x", "scr')
                        held.append(s)
                    elif act == "cancel-unknown":
                        s.sendall(_line("cancel_task", tid=987654321) + _line("get_task_state", tid="nope") + _line("get_task_states"))
                        held.append(s)
                    elif act == "wrong-shape":
                        s.sendall(_line("enqueue_task", name="w") + _line("enqueue_task", name=5, script=None, working_dir=7, deps="x"))
                        s.close()
                    elif act == "flood-noread":
                        # very many requests, no reply is ever read: the pool may stop serving this connection,
                        # not the others
                        s.setsockopt(socket.SOL_SOCKET, socket.SO_RCVBUF, 4096)
                        s.settimeout(3)
                        blob = _line("get_task_states") * 2000
                        try:
                            for _ in range(30 + k):
                                s.sendall(blob)
                        except OSError:
                            pass
                        held.append(s)
                except OSError:
                    pass
                time.sleep(0.05)
                if pool.proc.poll() is not None:
                    v("pool-process-died", f"the pool process is gone (exit status {pool.proc.returncode}) after {done}",
                      after=act)
                    break
            if not viols:
                # the healthy client is still served, sees the true states, and new tasks are accepted
                deadline = time.monotonic() + 40
                table = {}
                while time.monotonic() < deadline:
                    r = healthy(["status"], "status")
                    if r is None:
                        break
                    table = r.status_rows()
                    if not any(s_ in ("submitted", "running") for s_ in table.values()):
                        break
                    time.sleep(0.2)
                if not viols:
                    bad = {n: s_ for n, s_ in table.items() if s_ != "completed"}
                    with open(journal) as f:
                        ended = {l.split()[1] for l in f.read().splitlines() if l.startswith("end ")}
                    if bad or ended != {"slow", "after", "side"}:
                        v("accepted-task-not-run-to-its-end", f"after {done}: status {table}, tasks that ran to their end: {sorted(ended)}")
                if not viols:
                    targets.append({"name": "late", "inputs": [], "outputs": ["late.out"], "spec": spec("late", 0.05), "wd": None})
                    proj.write_desc({"targets": targets, "files": {}})
                    if healthy(["run"], "new submission") is not None:
                        deadline = time.monotonic() + 20
                        while time.monotonic() < deadline:
                            r = healthy(["status", "late"], "status")
                            if r is None or r.status_rows().get("late") == "completed":
                                break
                            time.sleep(0.2)
                        else:
                            v("new-task-not-run", f"after {done}: a task submitted afterwards did not complete: {r.status_rows()}")
                        ids = list(proj.state_json("local-backend-tracked.json").values())
                        if len(ids) != len(set(ids)) or len(ids) != 4:
                            v("task-ids-not-distinct", f"tracked ids {ids}")
        finally:
            for s in held:
                try:
                    s.close()
                except OSError:
                    pass
            try:
                with open(journal) as f:
                    pids = [int(l.split()[2]) for l in f.read().splitlines() if l.startswith("start ")]
            except (OSError, ValueError, IndexError):
                pids = []
            pool.stop()
            for p in pids:
                if pid_alive(p):
                    try:
                        os.kill(p, 9)
                    except OSError:
                        pass
    return viols, labels, len(case["actions"]) >= 2
