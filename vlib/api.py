"""API-level bridge: build gwf objects from a workflow description, with an
in-memory filesystem and backend.  Only gwf's public classes are used."""

import os
import pathlib

from . import model, scratch

ROOT = "/proj"


def decode(enc, wd_abs=None):
    """Encoded container -> the Python value handed to gwf."""
    if isinstance(enc, str):
        return enc
    if isinstance(enc, list):
        return [decode(x) for x in enc]
    if isinstance(enc, dict):
        if "__p" in enc:
            return pathlib.PurePosixPath(enc["__p"])
        if "__abs" in enc:
            return os.path.join(ROOT_FOR_ABS[0], enc["__abs"])
        if "__pabs" in enc:
            return pathlib.PurePosixPath(os.path.join(ROOT_FOR_ABS[0], enc["__pabs"]))
        if "__t" in enc:
            return tuple(decode(x) for x in enc["__t"])
        if "__d" in enc:
            return {k: decode(v) for k, v in enc["__d"].items()}
        if "__m" in enc:
            import types

            return types.MappingProxyType({k: decode(v) for k, v in enc["__m"].items()})
    raise ValueError(enc)


ROOT_FOR_ABS = [ROOT]


class MemFS:
    def __init__(self, files, root=ROOT):
        self.files = {os.path.normpath(os.path.join(root, p)): t for p, t in files.items() if t is not None}

    def exists(self, path):
        return path in self.files

    def changed_at(self, path):
        if path not in self.files:
            raise FileNotFoundError(path)
        return self.files[path]


class MemBackend:
    """status() from a vector name -> state; submit() is recorded."""

    def __init__(self, vector=None):
        from gwf.backends.base import BackendStatus

        self.BS = BackendStatus
        self.vector = dict(vector or {})
        self.calls = []
        self.target_defaults = {}

    def status(self, target):
        return self.BS[self.vector.get(target.name, "unknown").upper()]

    def submit(self, target, dependencies):
        self.calls.append((target.name, sorted(d.name for d in dependencies)))
        self.vector[target.name] = "submitted"

    def cancel(self, target):
        pass

    def close(self):
        pass


class MemHashes:
    """Spec-hash store with gwf's documented interface, backed by a dict name -> spec text."""

    def __init__(self, records, enabled=True):
        self.records = dict(records or {})
        self.enabled = enabled

    def has_changed(self, target):
        if not self.enabled:
            return None
        if self.records.get(target.name) != target.spec:
            return "changed"
        return None

    def update(self, target):
        if self.enabled:
            self.records[target.name] = target.spec

    def invalidate(self, target):
        self.records.pop(target.name, None)

    def close(self):
        pass

    def __enter__(self):
        return self

    def __exit__(self, *a):
        pass


def build_targets(desc, root=ROOT):
    from gwf import Target

    ROOT_FOR_ABS[0] = root
    out = []
    for d in desc["targets"]:
        wd = os.path.join(root, d["wd"]) if d.get("wd") else root
        if d.get("relwd"):
            # relative spelling of the same directory; only meaningful while the process cwd is `root`
            wd = d.get("wd") or "."
        t = Target(
            name=d["name"],
            inputs=decode(d.get("inputs", [])),
            outputs=decode(d.get("outputs", [])),
            options=dict(d.get("options", {})),
            working_dir=wd,
            protect=decode(d.get("protect", [])) or set(),
            spec=d.get("spec", ""),
        )
        out.append(t)
    return out


_REAL_ROOT = [None]
_REAL_ROOTS = {}
LAST_ROOT = [ROOT]  # root used by the most recent build_graph (virtual /proj or the real one)


def real_root(which=0):
    """A real directory used as project root (and process cwd).  Two of them exist so that consecutive cases in one
    process resolve the same relative working directories and paths from different current directories."""
    if which:
        saved = _REAL_ROOT[0]
        _REAL_ROOT[0] = _REAL_ROOTS.get(which)
        try:
            _REAL_ROOTS[which] = real_root(0)
        finally:
            _REAL_ROOT[0] = saved
        return _REAL_ROOTS[which]
    if _REAL_ROOT[0] is None or not os.path.isdir(_REAL_ROOT[0]):
        import atexit
        import shutil
        import tempfile

        d = os.path.realpath(tempfile.mkdtemp(prefix="gwfapiroot", dir=scratch.base()))
        atexit.register(shutil.rmtree, d, True)
        # working directories used by the generators, a symlinked alias of one of them, and in each of them a
        # symlink named q9 (the spelling "q9/../x" must be normalised textually, not through the link)
        os.makedirs(os.path.join(d, "deep", "real"))
        for sub in ("", "w1", "w1/w2", "w2", "d", "d/e", "x"):
            os.makedirs(os.path.join(d, sub), exist_ok=True)
            os.symlink(os.path.join(d, "deep", "real"), os.path.join(d, sub, "q9"))
        os.symlink(os.path.join(d, "w1"), os.path.join(d, "lnk"))
        _REAL_ROOT[0] = d
    return _REAL_ROOT[0]


def build_graph(desc, root=ROOT, real=False):
    """real=True: the project root is a real directory (with symlinks in it) and the process cwd while
    the graph is built; otherwise the root is the virtual /proj."""
    from gwf.core import Graph

    if real or any(d.get("relwd") for d in desc["targets"]):
        root = real_root(1 if desc.get("alt_root") else 0)
        old = os.getcwd()
        os.chdir(root)
        try:
            targets = build_targets(desc, root)
            fs = MemFS(desc.get("files", {}), root)
            g = Graph.from_targets({t.name: t for t in targets}, fs)
            # resolution happens lazily in some code paths: force it while the cwd is right
            for t in g.targets.values():
                t.flattened_inputs(), t.flattened_outputs()
            LAST_ROOT[0] = root
            return g, fs
        finally:
            os.chdir(old)
    targets = build_targets(desc, root)
    fs = MemFS(desc.get("files", {}), root)
    g = Graph.from_targets({t.name: t for t in targets}, fs)
    LAST_ROOT[0] = root
    return g, fs


def rebuild_graph(graph, desc2):
    """Edit the Target objects of `graph` in place so that they carry the inputs/outputs of `desc2` (same target
    names), then build a new graph from the same objects - the way a workflow file edits a target it got back
    from gwf.target() and gwf builds the graph afterwards."""
    from gwf.core import Graph

    root = LAST_ROOT[0]
    ROOT_FOR_ABS[0] = root
    by_name = {d["name"]: d for d in desc2["targets"]}
    old = os.getcwd()
    if os.path.isdir(root):
        os.chdir(root)
    try:
        for t in graph.targets.values():
            d = by_name[t.name]
            t.inputs = decode(d.get("inputs", []))
            t.outputs = decode(d.get("outputs", []))
        fs = MemFS(desc2.get("files", {}), root)
        g = Graph.from_targets({t.name: t for t in graph.targets.values()}, fs)
        for t in g.targets.values():
            t.flattened_inputs(), t.flattened_outputs()
        return g
    finally:
        os.chdir(old)


def rel(path, root=None):
    """gwf absolute path -> project-relative normalised (as in the model)."""
    root = root or LAST_ROOT[0]
    path = os.fspath(path)
    if path == root:
        return "."
    if path.startswith(root + "/"):
        return path[len(root) + 1:]
    return path


def exc_kind(exc):
    n = type(exc).__name__
    return {
        "FileProvidedByMultipleTargetsError": "multiple-providers",
        "UnresolvedInputError": "unresolved-input",
        "CircularDependencyError": "cycle",
    }.get(n, n)
