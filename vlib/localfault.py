"""Interrupted `gwf run` against the local worker pool (C09: "a failure injected at each ... enqueue").

A real `gwf workers` pool runs in a sub-process; gwf reaches it through a small TCP proxy owned by the harness.
The proxy reads the newline-delimited JSON requests, records every enqueue_task (name, deps, the id the pool
answered) and injects one fault at the k-th enqueue of the interrupted run:

  drop-before   the connection is closed before the request reaches the pool (the task was never accepted)
  drop-after    the request reaches the pool and is answered, but the answer never reaches gwf (accepted, yet gwf
                cannot know the id: that one task is in doubt)
  kill          gwf (a real sub-process) is SIGKILLed when it is about to send its k-th enqueue

Tasks sleep for a long time, so everything accepted is still pending or running when the next invocation comes.
"""

import json
import os
import signal
import socket
import subprocess
import threading
import time

from hypothesis import strategies as st

from . import gen, model, project
from .realpool import PY, Pool, free_port
from .runner import SubjectFailure


class Proxy:
    def __init__(self, pool_port):
        self.pool_port = pool_port
        self.port = free_port()
        self.lock = threading.Lock()
        self.enqueues = []  # dict(name, deps, tid|None, forwarded)
        self.fault = None  # (k, kind) counted over the enqueues seen from now on
        self.seen = 0
        self.reached = threading.Event()
        self.release = threading.Event()
        self.srv = socket.socket()
        self.srv.setsockopt(socket.SOL_SOCKET, socket.SO_REUSEADDR, 1)
        self.srv.bind(("127.0.0.1", self.port))
        self.srv.listen(16)
        self.stopping = False
        threading.Thread(target=self._accept, daemon=True).start()

    def arm(self, k, kind):
        with self.lock:
            self.fault, self.seen = (k, kind), 0
            self.reached.clear()
            self.release.clear()

    def disarm(self):
        with self.lock:
            self.fault = None
        self.release.set()

    def _accept(self):
        while not self.stopping:
            try:
                c, _ = self.srv.accept()
            except OSError:
                return
            threading.Thread(target=self._serve, args=(c,), daemon=True).start()

    def _serve(self, c):
        try:
            up = socket.create_connection(("127.0.0.1", self.pool_port), timeout=10)
        except OSError:
            c.close()
            return
        cf, uf = c.makefile("rwb"), up.makefile("rwb")
        try:
            while True:
                line = cf.readline()
                if not line:
                    break
                try:
                    msg = json.loads(line)
                except ValueError:
                    msg = {}
                kind = msg.get("__kind__")
                rec = None
                if kind == "enqueue_task":
                    with self.lock:
                        self.seen += 1
                        hit = self.fault is not None and self.seen == self.fault[0]
                        fk = self.fault[1] if hit else None
                        rec = {"name": msg.get("name"), "deps": list(msg.get("deps") or []), "tid": None, "forwarded": False}
                        self.enqueues.append(rec)
                    if fk == "drop-before":
                        self.reached.set()
                        break
                    if fk == "kill":
                        self.reached.set()
                        self.release.wait(20)  # the harness kills gwf now; nothing is forwarded
                        break
                uf.write(line)
                uf.flush()
                if rec is not None:
                    rec["forwarded"] = True
                if kind in ("enqueue_task", "get_task_state", "get_task_states"):
                    resp = uf.readline()
                    if rec is not None:
                        try:
                            rec["tid"] = json.loads(resp).get("tid")
                        except ValueError:
                            pass
                        if fk == "drop-after":
                            self.reached.set()
                            break
                    cf.write(resp)
                    cf.flush()
                if kind in ("close", "shutdown"):
                    break
        except OSError:
            pass
        finally:
            for s in (c, up):
                try:
                    s.shutdown(socket.SHUT_RDWR)
                except OSError:
                    pass
                s.close()

    def stop(self):
        self.stopping = True
        self.release.set()
        try:
            self.srv.close()
        except OSError:
            pass


@st.composite
def case(draw):
    desc = draw(gen.wellformed(max_targets=5, max_files=8, ticks=2, min_targets=2, shapes=(0, 2), spellings=(0, 1)))
    return {"kind": "local-interrupt", "desc": desc, "k": draw(st.integers(1, 5)),
            "fault": draw(st.sampled_from(["drop-before", "drop-after", "kill", "kill"])),
            "hashing": draw(st.booleans()), "invoke": draw(gen.invoke(objs=False))}


def run(case):
    """Returns (violations [(sig, msg)], labels, nontrivial)."""
    viols, labels = [], {"backend-local", "real-processes", "fault-" + case["fault"]}

    def v(kind, msg, **sig):
        viols.append(({"kind": kind, "backend": "local", "fault": case["fault"], **sig}, msg))

    desc = json.loads(json.dumps(case["desc"]))
    for t in desc["targets"]:
        t["spec"] = "sleep 60\n"  # accepted tasks are still pending or running at the follow-up
    R = model.Resolved(desc)
    cfg = {"use_spec_hashes": True} if case["hashing"] else {}
    with project.Project(desc, backend="local", config=cfg, invoke=case.get("invoke")) as proj:
        proj.set_files({p: (None if p in R.producers else 1) for p in desc["files"]})
        want_status, subs = R.plan(R.endpoints(), {})
        planned = [n for n, _ in subs]
        if len(planned) < 2:
            return viols, labels | {"fewer-than-two-submissions"}, False
        k = min(case["k"], len(planned))
        pool = Pool(proj.dir, 2)
        proxy = Proxy(pool.port)
        try:
            proj.write_config(dict({"backend": "local", "backend.local.port": proxy.port, "backend.local.host": "127.0.0.1"}, **cfg))
            proxy.arm(k, case["fault"])
            if case["fault"] == "kill":
                args, cwd = proj.where(["run"])
                env = dict(os.environ, PYTHONPATH=os.environ.get("GWF_VERIF_SRC", "/repo/src"), PYTHONHASHSEED="0")
                p = subprocess.Popen([PY, "-c", "from gwf.cli import main; main()", *args], cwd=cwd, env=env,
                                     stdout=subprocess.DEVNULL, stderr=subprocess.DEVNULL)
                hit = proxy.reached.wait(30)
                if hit:
                    p.send_signal(signal.SIGKILL)
                try:
                    p.wait(30)
                except subprocess.TimeoutExpired:
                    p.kill()
                    raise SubjectFailure("`gwf run` against the local pool did not end")
                if not hit:
                    return viols, labels | {"fault-not-reached"}, False
            else:
                r = proj.gwf(["run"])
                if not proxy.reached.is_set():
                    return viols, labels | {"fault-not-reached"}, False
                if r.code == 0:
                    v("failed-submission-exit-0", f"the connection to the pool broke at enqueue {k} but gwf run exited 0: {r.brief()}")
            proxy.disarm()
            first = list(proxy.enqueues)
            n_first = len(first)
            known = {e["name"]: e["tid"] for e in first if e["forwarded"] and e["tid"] is not None}
            in_doubt = None
            if case["fault"] == "drop-after" and first:
                in_doubt = first[-1]["name"]  # accepted, but the id never reached gwf
                known.pop(in_doubt, None)
            if case["fault"] == "kill" and first and first[-1]["forwarded"] is False:
                pass  # the k-th request was never sent on
            # ---- the next invocations start normally
            rs = proj.gwf(["status"])
            if rs.code != 0 or rs.crashed:
                v("next-invocation-fails", f"after the interruption: {rs.brief()}", cmd="status")
            else:
                table = rs.status_rows()
                for n in known:
                    if table.get(n) not in ("submitted", "running"):
                        v("accepted-task-not-shown-in-flight", f"{n} was accepted by the pool (id {known[n]}) before the "
                          f"interruption, status shows {table.get(n)}")
            r2 = proj.gwf(["run"])
            second = proxy.enqueues[n_first:]
            if r2.code != 0 or r2.crashed:
                v("next-invocation-fails", f"after the interruption: {r2.brief()}", cmd="run")
            else:
                again = sorted(e["name"] for e in second if e["name"] in known)
                if again:
                    v("accepted-job-forgotten", f"{again} enqueued again although the pool accepted them before the "
                      f"interruption (ids {[known[n] for n in again]}) and they are still pending or running")
                else:
                    ids = dict(known)
                    for e in second:
                        if e["tid"] is not None:
                            ids.setdefault(e["name"], e["tid"])
                    done_names = {e["name"] for e in second} | set(known) | ({in_doubt} if in_doubt else set())
                    missing = sorted(n for n in planned if n not in done_names)
                    if missing:
                        v("remaining-target-not-submitted", f"{missing} were neither accepted before the interruption nor "
                          f"submitted by the next run")
                    for e in second:
                        if e["name"] == in_doubt or e["name"] not in R.by_name:
                            continue
                        want = sorted(str(ids[d]) for d in R.deps[e["name"]] if d in ids and d != in_doubt)
                        got = sorted(str(d) for d in e["deps"])
                        unknown_dep = in_doubt in R.deps[e["name"]] if in_doubt else False
                        if got != want and not unknown_dep:
                            v("wrong-prerequisites", f"{e['name']} enqueued with deps {got}, its incomplete direct dependencies "
                              f"{sorted(R.deps[e['name']])} have the task ids {want}")
            if case["hashing"]:
                try:
                    rec = proj.state_json("spec-hashes.json")
                except ValueError:
                    rec = None
                if rec is not None:
                    accepted_ever = {e["name"] for e in proxy.enqueues if e["forwarded"]}
                    extra = sorted(set(rec) - accepted_ever)
                    if extra:
                        v("hash-recorded-without-acceptance", f"records for {extra}, accepted only {sorted(accepted_ever)}")
            if 1 < k:
                labels.add("interrupted-after-first-acceptance")
        finally:
            proxy.stop()
            # the tasks of the pool run in sessions of their own
            try:
                out = subprocess.run(["pgrep", "-f", "sleep 60"], capture_output=True, text=True).stdout.split()
            except OSError:
                out = []
            pool.stop()
            for pid in out:
                try:
                    if os.path.realpath(f"/proc/{pid}/cwd").startswith(proj.dir):
                        os.kill(int(pid), signal.SIGKILL)
                except (OSError, ValueError):
                    pass
    return viols, labels, 1 < k <= len(planned)
