"""Hypothesis strategies for workflow descriptions (see model.py for the format)."""

from hypothesis import strategies as st

NAME_POOL = ["A", "Ab", "A_b", "B", "B_1", "t1", "t10", "t2", "zz", "Abc", "C", "t1x", "_u", "A1"]
DIRS = ["", "", "d", "d/e", "x"]


def file_pool(n, dirs=None, nb=None):
    """n distinct project-relative paths; with nb set, base names repeat across directories
    (so equal relative texts in different working directories denote different files)."""
    dirs = dirs or DIRS
    out = []
    for i in range(n):
        d = dirs[i % len(dirs)]
        base = f"f{i}" if nb is None else f"f{i % nb}"
        p = (d + "/" if d else "") + base
        if p in out:
            p = (d + "/" if d else "") + f"f{i}"
        out.append(p)
    return out


# ---------------------------------------------------------------- spellings

def spell(path, how, wd=""):
    """One of several spellings of the project-relative `path`, as seen from a target
    whose working directory is the project-relative `wd`."""
    import posixpath

    rel = posixpath.relpath(path, wd or ".")
    if how == 0:
        return rel
    if how == 1:
        return "./" + rel
    if how == 2:
        return "q9/../" + rel
    if how == 3:
        head, _, tail = rel.rpartition("/")
        return (head + "//" + tail) if head else ".//" + rel
    if how == 4:
        return {"__abs": path}
    if how == 5:
        return {"__p": rel}
    if how == 6:
        return "./././" + rel
    if how == 7:
        return {"__pabs": path}  # absolute path handed over as a PathLike object
    if how == 8:
        return {"__abs": "./" + path}  # an absolute path that is not in normal form: <root>/./x
    if how == 9:
        head, _, tail = path.rpartition("/")
        return {"__abs": (head + "/" if head else "") + "zq/../" + tail}  # <root>/d/zq/../x
    raise ValueError(how)


def shape(paths, how, k=1):
    """Group the spelled paths into a container of the given shape."""
    P = list(paths)
    k = max(0, min(k, len(P)))
    if how == 0:
        return P
    if how == 1:
        return {"__t": P}
    if how == 2:
        return P[0] if len(P) == 1 else P
    if how == 3:
        return [P[:k], P[k:]]
    if how == 4:
        return {"__d": {f"k{i}": p for i, p in enumerate(P)}}
    if how == 5:
        return {"__d": {"a": P[:k], "b": P[k:]}}
    if how == 6:
        return [{"__d": {"n": p}} for p in P]
    if how == 7:
        return {"__d": {"a": P, "e": []}}
    if how == 8:
        return [P, []]
    if how == 9:
        return P + P[:1]
    if how == 10:
        return {"__t": [{"__t": P[:k]}, P[k:]]}
    if how == 11:
        # a mapping that is not a dict (types.MappingProxyType); API tiers only
        return {"__m": {"bam": P[:k], "idx": P[k:]}}
    raise ValueError(how)


N_SHAPES = 11  # shapes 0..10 are JSON/CLI-safe; 11 is offered explicitly where wanted
EMPTY_MEMBER_SHAPES = (3, 5, 7, 8, 10)


@st.composite
def container(draw, paths, wd="", spellings=(0, 1, 2, 3, 4), shapes=tuple(range(N_SHAPES))):
    sp = [spell(p, draw(st.sampled_from(spellings)), wd) for p in paths]
    how = draw(st.sampled_from(shapes))
    k = draw(st.integers(0, max(0, len(sp))))
    return shape(sp, how, k)


# ---------------------------------------------------------------- workflows

def short_spec(name):
    """A one- or two-line script: mostly newline-terminated, sometimes not (a one-liner given as a plain string),
    sometimes using shell variables and braces that look like the place-holders of a backend's script template."""
    return st.sampled_from([
        f"echo run {name}\n", f"echo run {name}\n", f"echo run {name}\n", f"echo run {name}\n",
        f"echo run {name}",
        f"echo run {name} ${{cores}} ${{memory}} {{job_name}} {{std_out}} {{queue}}\n",
        f"echo run {name}; echo '{{cores}} {{std_err}}'",
    ])


@st.composite
def wellformed(draw, max_targets=6, max_files=8, spellings=(0, 1, 2, 3, 4), shapes=tuple(range(N_SHAPES)),
               ticks=5, allow_missing_outputs=True, wds=(None,), min_targets=1, protect=False,
               options=False, specs="short", dirs=None, nb=None, wf_wds=(None,)):
    """Valid workflow: no duplicate producer, no cycle, every source exists.
    wf_wds: candidate explicit workflow working directories (project-relative); when one is drawn the
    workflow is created with Workflow(working_dir=...) and every target made with Workflow.target inherits it."""
    wf_wd = draw(st.sampled_from(wf_wds))
    if wf_wd is not None:
        wds = (wf_wd,)
    nt = draw(st.integers(min_targets, max_targets))
    nf = draw(st.integers(2, max_files))
    files = file_pool(nf, dirs, nb)
    names = draw(st.permutations(NAME_POOL))[:nt]
    # owner of each file: -1 source, else index in hidden topological order
    owner = [draw(st.integers(-1, nt - 1)) for _ in files]
    count = {}
    for i, o in enumerate(owner):
        if o >= 0:
            count[o] = count.get(o, 0) + 1
            if count[o] > 3:
                owner[i] = -1
    targets = []
    for i in range(nt):
        wd = draw(st.sampled_from(wds))
        outs = [f for f, o in zip(files, owner) if o == i]
        avail = [f for f, o in zip(files, owner) if o < i]
        ins = draw(st.lists(st.sampled_from(avail), max_size=3, unique=True)) if avail else []
        t = {
            "name": names[i],
            "inputs": draw(container(ins, wd or "", spellings, shapes)),
            "outputs": draw(container(outs, wd or "", spellings, shapes)),
            "spec": draw(short_spec(names[i])) if specs == "short" else draw(specs),
            "wd": wd,
        }
        if wf_wd is not None:
            t["via"] = "target"
        if protect:
            cand = outs + (avail[:1] if avail else [])
            pr = draw(st.lists(st.sampled_from(cand), max_size=2, unique=True)) if cand else []
            t["protect"] = [spell(p, draw(st.sampled_from(spellings)), wd or "") for p in pr]
        if options:
            t["options"] = draw(options)
        targets.append(t)
    targets = list(draw(st.permutations(targets)))
    fstate = {}
    for f, o in zip(files, owner):
        if o < 0:
            fstate[f] = draw(st.integers(1, ticks))
        else:
            fstate[f] = draw(st.one_of(st.none(), st.integers(1, ticks))) if allow_missing_outputs \
                else draw(st.integers(1, ticks))
    desc = {"targets": targets, "files": fstate}
    if wf_wd is not None:
        desc["workflow_wd"] = wf_wd
    return desc


@st.composite
def freeform(draw, max_targets=6, max_files=7, spellings=(0, 1, 2), shapes=(0, 2, 4, 5)):
    """Arbitrary input/output subsets: duplicate producers, missing sources, cycles."""
    nt = draw(st.integers(1, max_targets))
    nf = draw(st.integers(2, max_files))
    files = file_pool(nf)
    names = draw(st.permutations(NAME_POOL))[:nt]
    targets = []
    for i in range(nt):
        # one target never lists the same file twice as an output (DESIGN 6.3)
        outs = draw(st.lists(st.sampled_from(files), max_size=2, unique=True))
        ins = draw(st.lists(st.sampled_from(files), max_size=3, unique=True))
        targets.append({
            "name": names[i],
            "inputs": draw(container(ins, "", spellings, shapes)),
            "outputs": draw(container(outs, "", spellings, (0, 2, 4))),
            "spec": f"echo run {names[i]}\n",
            "wd": None,
        })
    fstate = {f: draw(st.sampled_from([None, 1, 1, 2, 3])) for f in files}
    return {"targets": targets, "files": fstate}


def patterns(names):
    """Name patterns: exact names, prefixes with *, ?, classes, patterns matching nothing."""
    names = list(names)
    base = [st.sampled_from(names)] if names else []
    # incl. patterns whose only metacharacter is a bracket class
    glob = st.sampled_from(["*", "A*", "t1*", "t?", "?", "[AB]*", "*_*", "nomatch*", "t1", "B_?", "[!A]*", "*1",
                            "[AB]", "A[b_]", "t1[0]", "B_[12]", "[!z]b"])
    return st.lists(st.one_of(*base, glob), min_size=1, max_size=3)


@st.composite
def invoke(draw, objs=True, links=True):
    """How the gwf commands of a case are invoked (project.Project(invoke=...)); None = from the project root
    with a plain workflow.py defining `gwf`."""
    if draw(st.integers(0, 2)) == 0:
        return None
    return {"plan": draw(st.lists(st.sampled_from([0, 0, 1, 2]), min_size=1, max_size=4)),
            "obj": draw(st.sampled_from([None, None, "analysis"])) if objs else None,
            "wf_link": draw(st.sampled_from([False, False, True])) if links else False,
            "stale_tmp": draw(st.sampled_from([False, False, True]))}
