"""Shared runner: tiers, seeds, shards, replay, evidence, known findings.

A property module (props/cXX.py) exposes

    ID, LEVEL, RULE, ASSUMPTIONS, TECHNIQUE
    BUDGET = {"quick": {...}, "thorough": {...}}     # examples, wall_s, shards
    strategy(tier)            -> hypothesis strategy of JSON-serialisable cases
    run_case(case)            -> CaseResult
    enumerate_cases(tier)     -> iterable of cases (optional; exhaustive part)
    extra_phases(tier, seed, stats) (optional; e.g. atheris, real processes)

Everything random comes from Hypothesis seeded with VERIF_SEED (per shard:
seed*1000+shard).  Cases are plain data, so a replay never needs Hypothesis.
"""

import hashlib
import json
import multiprocessing
import os
import signal
import threading
import sys
import time
import traceback

VERIF = os.path.dirname(os.path.dirname(os.path.abspath(__file__)))
# evidence/ and replays/ go here (the self-test redirects them so that runs against
# mutated copies never overwrite the real evidence)
OUT = os.environ.get("VERIF_OUT") or VERIF


class HarnessError(Exception):
    """Something is wrong with the harness, not with gwf (exit 2)."""


class SubjectFailure(Exception):
    """The code under test failed where the harness needs it to work: a gwf command on a valid project exited
    non-zero during set-up, the worker pool did not come up, its event loop never became quiescent.  On the
    unchanged tree none of this happens; when it does, it is reported as a violation (with the replay), not as a
    harness error."""


class Violation:
    __slots__ = ("sig", "msg")

    def __init__(self, sig, msg):
        self.sig = dict(sig)
        self.msg = str(msg)

    def to_json(self):
        return {"sig": self.sig, "msg": self.msg}


class CaseResult:
    def __init__(self, violations=None, nontrivial=False, labels=None, note=None):
        self.violations = list(violations or [])
        self.nontrivial = bool(nontrivial)
        self.labels = list(labels or [])
        self.note = note


def canon(case):
    return json.dumps(case, sort_keys=True, separators=(",", ":"), default=str)


def digest(case):
    return hashlib.sha1(canon(case).encode()).hexdigest()


# --------------------------------------------------------------------------
# known findings


def load_known(prop_id):
    path = os.path.join(VERIF, "known_findings.json")
    try:
        with open(path) as f:
            data = json.load(f)
    except FileNotFoundError:
        return []
    return [
        e
        for e in data.get("findings", [])
        if e.get("property") == prop_id and e.get("status") == "open"
    ]


def match_known(known, violation):
    """An open entry matches when every key of its signature equals the
    violation's signature value (narrow by construction)."""
    for entry in known:
        sig = entry.get("signature", {})
        if sig and all(violation.sig.get(k) == v for k, v in sig.items()):
            return entry
    return None


# --------------------------------------------------------------------------
# statistics of one shard


class Stats:
    def __init__(self):
        self.evaluations = 0
        self.nontrivial = set()
        self.labels = {}
        self.samples = []
        self.known_seen = {}
        self.excluded = 0
        self.budget_exhausted = False
        self.fail_first = None
        self.fail_last = None
        self.extra = {}
        self.notes = []

    def record(self, case, res, max_samples=4):
        self.evaluations += 1
        for lab in res.labels:
            self.labels[lab] = self.labels.get(lab, 0) + 1
        if res.nontrivial:
            d = digest(case)
            if d not in self.nontrivial:
                self.nontrivial.add(d)
                if len(self.samples) < max_samples:
                    self.samples.append(case)

    def to_json(self):
        return {
            "evaluations": self.evaluations,
            "nontrivial": sorted(self.nontrivial),
            "labels": self.labels,
            "samples": self.samples,
            "known_seen": self.known_seen,
            "excluded": self.excluded,
            "budget_exhausted": self.budget_exhausted,
            "fail_first": self.fail_first,
            "fail_last": self.fail_last,
            "extra": self.extra,
            "notes": self.notes,
        }


def _classify(mod, known, stats, case, res):
    """Return the list of violations that are not known findings."""
    fresh = []
    for v in res.violations:
        entry = match_known(known, v)
        if entry is not None:
            stats.known_seen[entry["key"]] = entry.get("what", "")
        else:
            fresh.append(v)
    return fresh


class CaseTimeout(BaseException):
    pass


TIMED_OUT = [False]


def _alarm(signum, frame):
    # The exception may be swallowed by the code under test (an asyncio task stores any
    # BaseException raised inside it), so the flag is what counts; re-arm to keep breaking loops.
    TIMED_OUT[0] = True
    signal.setitimer(signal.ITIMER_REAL, 2.0)
    raise CaseTimeout()


CASE_LABELS = set()  # labels contributed by shared machinery (e.g. how a scratch project invoked gwf) during one case


def _run_one(mod, known, stats, case):
    CASE_LABELS.clear()
    # watchdog: a single case that does not come back is a hang of the code under test
    limit = float(getattr(mod, "CASE_TIMEOUT_S", 90))
    use_alarm = threading.current_thread() is threading.main_thread()
    if use_alarm:
        old = signal.signal(signal.SIGALRM, _alarm)
        signal.setitimer(signal.ITIMER_REAL, limit)
    TIMED_OUT[0] = False
    try:
        try:
            res = mod.run_case(case)
        finally:
            if use_alarm:
                signal.setitimer(signal.ITIMER_REAL, 0)
    except CaseTimeout:
        res = None
    except SubjectFailure as exc:
        if TIMED_OUT[0]:
            res = None
        else:
            res = CaseResult([Violation({"kind": "subject-failure", "what": str(exc).split(":")[0][:60]}, str(exc))],
                             False, ["subject-failure"])
    except Exception:
        if not TIMED_OUT[0]:
            raise
        res = None  # fallout of the interrupted case
    finally:
        if use_alarm:
            signal.setitimer(signal.ITIMER_REAL, 0)
            signal.signal(signal.SIGALRM, old)
    if res is None or TIMED_OUT[0]:
        res = CaseResult([Violation({"kind": "hang"}, f"case did not finish within {limit:.0f}s "
                                    "(a command or the worker pool's event loop never came back)")], False, ["hang"])
    if CASE_LABELS:
        res.labels = sorted(set(res.labels) | CASE_LABELS)
    stats.record(case, res)
    fresh = _classify(mod, known, stats, case, res)
    if fresh:
        rec = {"case": case, "violations": [v.to_json() for v in fresh]}
        if stats.fail_first is None:
            stats.fail_first = rec
        stats.fail_last = rec
    return fresh


def run_shard(args):
    """Worker: one shard of one property.  Returns Stats as JSON."""
    mod_name, tier, seed, shard, nshards = args
    import importlib

    stats = Stats()
    try:
        mod = importlib.import_module(mod_name)
        known = load_known(mod.ID)
        budget = dict(mod.BUDGET[tier])
        t0 = time.monotonic()
        wall = float(os.environ.get("VERIF_WALL_S", budget.get("wall_s", 120)))

        # 1. committed regression corpus (shard 0 only)
        if shard == 0:
            cdir = os.path.join(VERIF, "corpus", mod.ID)
            if os.path.isdir(cdir):
                for name in sorted(os.listdir(cdir)):
                    if name.endswith(".json"):
                        with open(os.path.join(cdir, name)) as f:
                            data = json.load(f)
                        case = data["case"] if "case" in data else data
                        if _run_one(mod, known, stats, case):
                            return stats.to_json()
                stats.extra["corpus_replayed"] = stats.evaluations

        # 2. exhaustive sub-space, striped over the shards
        if hasattr(mod, "enumerate_cases"):
            n_enum = 0
            complete = True
            for i, case in enumerate(mod.enumerate_cases(tier)):
                if i % nshards != shard:
                    continue
                n_enum += 1
                if _run_one(mod, known, stats, case):
                    return stats.to_json()
                if time.monotonic() - t0 > wall:
                    complete = False
                    stats.budget_exhausted = True
                    break
            stats.extra["enumerated"] = n_enum
            stats.extra["enumeration_complete"] = complete

        # 3. generated cases
        examples = int(budget.get("examples", 0))
        if examples > 0 and hasattr(mod, "strategy"):
            _hypothesis_phase(mod, known, stats, tier, seed * 1000 + shard, examples,
                              t0, wall, budget)

        # 3b. further generated phases with their own (small) budgets, e.g. real-process tiers
        for k, extra in enumerate(getattr(mod, "EXTRA_STRATEGIES", [])):
            if stats.fail_last is not None:
                break
            n = int(extra["examples"][tier])
            # the examples of an extra phase are spread over the shards
            mine = n // nshards + (1 if shard < n % nshards else 0)
            if mine > 0:
                _hypothesis_phase(mod, known, stats, tier, seed * 1000 + shard + 7919 * (k + 1), mine, t0,
                                  wall + float(extra.get("wall_s", 120)), budget, strategy=extra["strategy"](tier))
                stats.extra[extra["name"] + "_cases"] = stats.extra.get(extra["name"] + "_cases", 0) + mine

        # 4. property-specific extra phases (real processes, atheris, ...)
        if hasattr(mod, "extra_phases") and stats.fail_last is None:
            mod.extra_phases(tier, seed, shard, nshards, stats,
                             lambda case: _run_one(mod, known, stats, case))
    except HarnessError as exc:
        stats.extra["harness_error"] = f"{exc}\n{traceback.format_exc()}"
    except Exception as exc:  # noqa: BLE001 - anything else is a harness bug
        stats.extra["harness_error"] = f"{type(exc).__name__}: {exc}\n{traceback.format_exc()}"
    return stats.to_json()


def _hypothesis_phase(mod, known, stats, tier, seed, examples, t0, wall, budget, strategy=None):
    import hypothesis
    from hypothesis import HealthCheck, Phase, given, settings

    shrink_calls = [0]
    shrink_budget_s = float(budget.get("shrink_s", 45))
    shrink_t0 = [None]

    @hypothesis.seed(seed)
    @settings(
        max_examples=examples,
        database=None,
        deadline=None,
        derandomize=False,
        report_multiple_bugs=False,
        suppress_health_check=list(HealthCheck),
        phases=[Phase.generate, Phase.shrink],
    )
    @given(strategy if strategy is not None else mod.strategy(tier))
    def test(case):
        if stats.fail_first is None:
            if time.monotonic() - t0 > wall:
                stats.budget_exhausted = True
                return
        else:
            # shrinking: bounded by our own budget; afterwards every attempt
            # "passes" immediately so the shrinker stops quickly.
            if shrink_t0[0] is None:
                shrink_t0[0] = time.monotonic()
            shrink_calls[0] += 1
            if time.monotonic() - shrink_t0[0] > shrink_budget_s:
                return
        fresh = _run_one(mod, known, stats, case)
        if fresh:
            raise AssertionError(fresh[0].msg)

    try:
        test()
    except HarnessError:
        raise
    except BaseException as exc:  # noqa: BLE001
        if stats.fail_last is None:
            # not one of our assertion failures: harness problem
            raise HarnessError(f"hypothesis raised {type(exc).__name__}: {exc}") from exc
    stats.extra["shrink_calls"] = shrink_calls[0]


# --------------------------------------------------------------------------
# orchestration


def merge(shards):
    out = Stats()
    for s in shards:
        out.evaluations += s["evaluations"]
        out.nontrivial.update(s["nontrivial"])
        for k, v in s["labels"].items():
            out.labels[k] = out.labels.get(k, 0) + v
        for c in s["samples"]:
            if len(out.samples) < 5:
                out.samples.append(c)
        out.known_seen.update(s["known_seen"])
        out.excluded += s["excluded"]
        out.budget_exhausted = out.budget_exhausted or s["budget_exhausted"]
        if s["fail_last"] is not None and out.fail_last is None:
            out.fail_first = s["fail_first"]
            out.fail_last = s["fail_last"]
        for k, v in s["extra"].items():
            if isinstance(v, bool):
                out.extra[k] = out.extra.get(k, True) and v
            elif isinstance(v, (int, float)):
                out.extra[k] = out.extra.get(k, 0) + v
            elif isinstance(v, dict):
                d = out.extra.setdefault(k, {})
                for kk, vv in v.items():
                    if isinstance(vv, (int, float)) and not isinstance(vv, bool):
                        d[kk] = d.get(kk, 0) + vv
                    else:
                        d.setdefault(kk, vv)
            elif isinstance(v, list):
                out.extra.setdefault(k, [])
                out.extra[k].extend(v[: max(0, 8 - len(out.extra[k]))])
            else:
                out.extra.setdefault(k, v)
        out.notes.extend(s["notes"])
    return out


def write_evidence(mod, tier, seed, stats, wall_s, n_viol):
    os.makedirs(os.path.join(OUT, "evidence"), exist_ok=True)
    cov = {
        "evaluations": stats.evaluations,
        "distinct_nontrivial": len(stats.nontrivial),
        "rule": mod.RULE,
        "samples": stats.samples[:5],
        "class_histogram": dict(sorted(stats.labels.items())),
        "known_findings_seen": sorted(stats.known_seen),
        "excluded_by_construction": stats.excluded,
        "budget_exhausted": stats.budget_exhausted,
    }
    if stats.extra.get("enumerated"):
        cov["exhaustive_subspace_cases"] = stats.extra["enumerated"]
        cov["exhaustive"] = bool(stats.extra.get("enumeration_complete")) and not hasattr(
            mod, "strategy"
        )
        cov["exhaustive_subspace_complete"] = bool(stats.extra.get("enumeration_complete"))
    for k, v in stats.extra.items():
        if k not in ("enumerated", "enumeration_complete", "harness_error"):
            cov.setdefault(k, v)
    if mod.LEVEL == "translation_validation":
        cov.setdefault("programs", stats.extra.get("programs", stats.evaluations))
        cov.setdefault("disagreements_checked", stats.extra.get("disagreements_checked", 0))
    if stats.notes:
        cov["notes"] = stats.notes[:10]
    ev = {
        "property_id": mod.ID,
        "tier": tier,
        "seed": seed,
        "level": mod.LEVEL,
        "coverage": cov,
        "assumptions": list(mod.ASSUMPTIONS),
        "wall_s": round(wall_s, 2),
        "violations": n_viol,
    }
    path = os.path.join(OUT, "evidence", f"{mod.ID}.json")
    tmp = path + ".tmp"
    with open(tmp, "w") as f:
        json.dump(ev, f, indent=1, sort_keys=True, default=str)
        f.write("\n")
    os.replace(tmp, path)
    return path


def save_replay(mod, tier, seed, rec, tag):
    d = os.path.join(OUT, "replays", mod.ID)
    os.makedirs(d, exist_ok=True)
    path = os.path.join(d, f"{digest(rec['case'])[:12]}-{tag}.json")
    with open(path, "w") as f:
        json.dump(
            {"property": mod.ID, "tier": tier, "seed": seed, "case": rec["case"],
             "violations": rec["violations"]},
            f, indent=1, sort_keys=True, default=str,
        )
        f.write("\n")
    return path


def main_property(mod_name, tier, seed, replay=None, jobs=None):
    import importlib

    t0 = time.monotonic()
    try:
        mod = importlib.import_module(mod_name)
    except Exception:  # noqa: BLE001
        traceback.print_exc()
        print(f"HARNESS-ERROR property={mod_name} import failed")
        return 2

    if replay:
        with open(replay) as f:
            data = json.load(f)
        case = data["case"] if isinstance(data, dict) and "case" in data else data
        known = load_known(mod.ID)
        stats = Stats()
        try:
            fresh = _run_one(mod, known, stats, case)
        except Exception:  # noqa: BLE001
            traceback.print_exc()
            print(f"HARNESS-ERROR property={mod.ID} replay crashed")
            return 2
        for key, what in stats.known_seen.items():
            print(f"KNOWN-FINDING: property={mod.ID} {what} [{key}]")
        if fresh:
            for v in fresh:
                print(f"  {json.dumps(v.sig, sort_keys=True)} :: {v.msg}")
            print(f"VIOLATION property={mod.ID} replay={os.path.abspath(replay)}")
            return 1
        print(f"OK property={mod.ID} replay held")
        return 0

    budget = mod.BUDGET[tier]
    nshards = int(jobs or os.environ.get("VERIF_JOBS") or budget.get("shards", 1))
    nshards = max(1, nshards)
    work = [(mod_name, tier, seed, i, nshards) for i in range(nshards)]
    if nshards == 1:
        shards = [run_shard(work[0])]
    else:
        ctx = multiprocessing.get_context("fork")
        with ctx.Pool(nshards) as pool:
            shards = pool.map(run_shard, work, chunksize=1)

    errs = [s["extra"]["harness_error"] for s in shards if "harness_error" in s["extra"]]
    stats = merge(shards)
    wall = time.monotonic() - t0
    n_viol = 0 if stats.fail_last is None else 1

    if errs and stats.fail_last is None:
        sys.stderr.write(errs[0] + "\n")
        print(f"HARNESS-ERROR property={mod.ID} ({len(errs)} shard(s))")
        return 2

    write_evidence(mod, tier, seed, stats, wall, n_viol)
    for key, what in sorted(stats.known_seen.items()):
        print(f"KNOWN-FINDING: property={mod.ID} {what} [{key}]")
    hist = ", ".join(f"{k}={v}" for k, v in sorted(stats.labels.items()))
    print(
        f"{mod.ID} tier={tier} seed={seed} shards={nshards} evaluations={stats.evaluations} "
        f"distinct_nontrivial={len(stats.nontrivial)} wall={wall:.1f}s"
        + (" budget_exhausted" if stats.budget_exhausted else "")
    )
    if hist:
        print(f"  classes: {hist}")
    if stats.fail_last is not None:
        first = save_replay(mod, tier, seed, stats.fail_first, "first")
        path = save_replay(mod, tier, seed, stats.fail_last, "min")
        for v in stats.fail_last["violations"]:
            print(f"  {json.dumps(v['sig'], sort_keys=True)} :: {v['msg']}")
        print(f"  first failing case: {first}")
        print(f"VIOLATION property={mod.ID} replay={path}")
        return 1
    print(f"OK property={mod.ID}")
    return 0
