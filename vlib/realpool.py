"""Real-process tier for the local worker pool: the real `gwf workers` server in a
sub-process, real `sh` children that journal their own start and end, and `gwf -b local`
as the client.  Oracles only use facts that hold under every timing: a child is certainly
alive between its own `start` and `end` journal lines."""

import json
import os
import signal
import socket
import subprocess
import sys
import time

from hypothesis import strategies as st

from . import project
from .runner import HarnessError, SubjectFailure

PY = sys.executable or "/venv/bin/python"


def free_port():
    s = socket.socket()
    s.bind(("127.0.0.1", 0))
    p = s.getsockname()[1]
    s.close()
    return p


class Pool:
    """`start_cluster(dir, cores, host, port)` in its own process group."""

    def __init__(self, workdir, cores, port=None, cwd=None, nofile=None):
        """cwd: directory the pool is started from (a sub-directory of the project: gwf finds the project by
        searching upwards)."""
        self.port = port or free_port()
        env = dict(os.environ)
        env["PYTHONPATH"] = os.environ.get("GWF_VERIF_SRC", "/repo/src")
        os.makedirs(os.path.join(workdir, ".gwf", "logs"), exist_ok=True)
        # the documented way to start a pool: `gwf -b local workers -n <cores> -p <port> -h <host>` in the project
        if os.path.exists(os.path.join(workdir, "workflow.py")):
            cmd = [PY, "-c", "from gwf.cli import main; main()", "-b", "local", "workers", "-n", str(int(cores)),
                   "-p", str(self.port), "-h", "127.0.0.1"]
        else:
            code = ("from gwf.backends.local import start_cluster; "
                    f"start_cluster({workdir!r}, {int(cores)}, '127.0.0.1', {self.port})")
            cmd = [PY, "-c", code]
        pre = None
        if nofile:
            # the usual limit on open files of a login shell (this machine's default is far higher)
            def pre():
                import resource

                resource.setrlimit(resource.RLIMIT_NOFILE, (nofile, nofile))
        self.proc = subprocess.Popen(cmd, cwd=cwd or workdir, env=env, stdout=subprocess.DEVNULL,
                                     stderr=subprocess.DEVNULL, start_new_session=True, preexec_fn=pre)
        deadline = time.monotonic() + 20
        while time.monotonic() < deadline:
            try:
                s = socket.create_connection(("127.0.0.1", self.port), timeout=0.5)
                s.sendall(b'{"__kind__": "close"}\n')
                s.close()
                return
            except OSError:
                if self.proc.poll() is not None:
                    raise SubjectFailure("worker pool process exited at start-up")
                time.sleep(0.05)
        self.stop()
        raise SubjectFailure("worker pool did not start listening")

    def stop(self):
        try:
            os.killpg(self.proc.pid, signal.SIGKILL)
        except ProcessLookupError:
            pass
        try:
            self.proc.wait(10)
        except subprocess.TimeoutExpired:
            pass


def task_spec(name, t, journal):
    """sh script: journal start, (spawn grand-child), work, outputs, print payload, journal end, exit rc."""
    lines = [f'echo "start {name} $$ $(date +%s%N)" >> {journal}']
    if t.get("orphan"):
        # the shell exits at once, a background child keeps the task's output pipes open: the task is still
        # running as far as the pool can tell, but its process group leader is gone
        lines.append(f'sleep 300 & echo "child {name} $!" >> {journal}')
        lines.append("exit 0")
        return "\n".join(lines) + "\n"
    if t.get("grandchild"):
        lines.append(f'sleep 300 & GC=$!; echo "child {name} $GC" >> {journal}')
    lines.append(f"sleep {t['sleep_ms'] / 1000:.3f}")
    if t.get("out_bytes"):
        lines.append(f"head -c {t['out_bytes']} /dev/zero | tr '\\0' 'o'")
        lines.append(f"head -c {t['out_bytes'] // 2 + 1} /dev/zero | tr '\\0' 'e' >&2")
    else:
        lines.append(f"echo out-of-{name}; echo err-of-{name} >&2")
    if t["rc"] == 0:
        lines.append(f"echo made > {name}.out")
    lines.append(f'echo "end {name} $(date +%s%N)" >> {journal}')
    if t.get("grandchild"):
        lines.append("kill $GC 2>/dev/null")
    lines.append(f"exit {t['rc']}")
    return "\n".join(lines) + "\n"


@st.composite
def real_case(draw, max_tasks=6):
    n = draw(st.integers(2, max_tasks))
    tasks = []
    for i in range(n):
        deps = draw(st.lists(st.integers(0, i - 1), max_size=2, unique=True)) if i else []
        tasks.append({
            "deps": deps,
            "rc": draw(st.sampled_from([0, 0, 0, 0, 1, 3])),
            "sleep_ms": draw(st.sampled_from([30, 80, 150, 300, 600])),
            "out_bytes": draw(st.sampled_from([0, 0, 500, 100000, 200000])),
            "grandchild": draw(st.sampled_from([False, False, True])),
        })
    cancels = draw(st.lists(st.tuples(st.integers(0, n - 1), st.sampled_from([0, 50, 200, 400])), max_size=2))
    if draw(st.booleans()):
        # a long-running victim with a grand-child, cancelled while it certainly runs (when a core is free)
        tasks.append({"deps": [], "rc": 0, "sleep_ms": 6000, "out_bytes": 0, "grandchild": draw(st.booleans()),
                      "orphan": draw(st.sampled_from([False, False, True]))})
        tasks[0], tasks[-1] = tasks[-1], tasks[0]
        for t in tasks:
            t["deps"] = [d for d in t["deps"] if d != 0 and d != len(tasks) - 1]
        tasks[0]["deps"] = []
        cancels = list(cancels) + [(0, draw(st.sampled_from([250, 400])))]
    from . import gen

    return {"kind": "real", "cores": draw(st.sampled_from([1, 2, 2, 3])), "tasks": tasks,
            "cancels": [list(c) for c in cancels], "second_wave": draw(st.booleans()),
            "invoke": draw(gen.invoke(objs=False)), "rm_logs": draw(st.sampled_from([False, False, True]))}


@st.composite
def converge_case(draw, max_tasks=6):
    """Every task succeeds and nothing is cancelled; afterwards one output is deleted (C06 on the local pool)."""
    from . import gen

    n = draw(st.integers(2, max_tasks))
    tasks = []
    for i in range(n):
        deps = draw(st.lists(st.integers(0, i - 1), max_size=2, unique=True)) if i else []
        tasks.append({"deps": deps, "rc": 0, "sleep_ms": draw(st.sampled_from([30, 80, 150])),
                      "out_bytes": 0, "grandchild": False})
    return {"kind": "real", "cores": draw(st.sampled_from([1, 2, 3])), "tasks": tasks, "cancels": [],
            "second_wave": draw(st.booleans()), "perturb": draw(st.integers(0, n - 1)),
            "invoke": draw(gen.invoke(objs=False))}


@st.composite
def wide_case(draw):
    """As many independent long tasks as workers; worker counts around and above the number of CPUs of the host."""
    ncpu = os.cpu_count() or 2
    cores = draw(st.sampled_from([ncpu + 2, ncpu + 1, ncpu, ncpu + 5, 5]))
    return {"kind": "real", "wide": True, "cores": cores, "cancels": [], "second_wave": False,
            "tasks": [{"deps": [], "rc": 0, "sleep_ms": 4000, "out_bytes": 0, "grandchild": False} for _ in range(cores)]}


def pid_alive(pid):
    try:
        with open(f"/proc/{pid}/stat") as f:
            return f.read().split(")")[-1].split()[0] != "Z"
    except OSError:
        return False


def run_real(case):
    """Returns (violations [(prop, sig, msg)], labels, info)."""
    viols, labels = [], set()

    def v(prop, kind, msg, **sig):
        viols.append((prop, {"kind": kind, "tier": "real", **sig}, msg))

    tasks = case["tasks"]
    # dots are legal in target names: every other task is named like a member of its predecessor's family
    names = [f"r{i}" if i % 2 == 0 else f"r{i - 1}.m{i}" for i in range(len(tasks))]
    with project.Project({"targets": [], "files": {}}, backend="local", invoke=case.get("invoke")) as proj:
        journal = proj.path("journal.txt")
        open(journal, "w").close()
        targets = []
        for i, t in enumerate(tasks):
            targets.append({"name": names[i], "inputs": [f"{names[d]}.out" for d in t["deps"]],
                            "outputs": [f"{names[i]}.out"], "spec": task_spec(names[i], t, journal), "wd": None})
        desc = {"targets": targets, "files": {}}
        proj.write_desc(desc)
        pool = Pool(proj.dir, case["cores"], cwd=proj.pool_cwd())
        try:
            proj.write_config({"backend": "local", "backend.local.port": pool.port, "backend.local.host": "127.0.0.1"})
            first = names if not case["second_wave"] else names[: max(1, len(names) // 2)]
            if case.get("rm_logs"):
                # the user cleared the logs (rm -r .gwf/logs); gwf makes the directory again when it is next used
                import shutil

                shutil.rmtree(proj.path(".gwf/logs"), ignore_errors=True)
                labels.add("logs-directory-removed-before-run")
            # endpoints among the first wave only
            r = proj.gwf(["run", *first])
            if r.code != 0 or r.crashed:
                raise SubjectFailure("`gwf run` against a healthy local pool failed: " + r.brief())
            submissions = {}
            for n_ in r.submitting():
                submissions[n_] = submissions.get(n_, 0) + 1
            t0 = time.monotonic()
            cancelled = set()
            cancel_ns, cancel_out, cancel_before_ns = {}, {}, {}
            for idx, after in sorted(case["cancels"], key=lambda c: c[1]):
                dt = after / 1000 - (time.monotonic() - t0)
                if dt > 0:
                    time.sleep(dt)
                cancel_before_ns[idx] = time.time_ns()
                rc = proj.gwf(["cancel", names[idx]])
                cancel_ns[idx] = time.time_ns()
                if rc.crashed:
                    v("C17", "local-cancel-crashed", rc.brief())
                cancel_out[idx] = rc.out + rc.err
                if names[idx] in first:
                    cancelled.add(idx)
                    labels.add("cancel")
                else:
                    # the target has not been submitted yet (it belongs to the second wave): nothing to cancel
                    labels.add("cancel-of-a-target-never-submitted")
                    cancel_ns.pop(idx, None)
                    cancel_before_ns.pop(idx, None)
            t_r2_ns = None
            if case["second_wave"]:
                if case.get("wave_gap_ms"):
                    time.sleep(case["wave_gap_ms"] / 1000)  # the first wave has come to its end by then
                t_r2_ns = time.time_ns()
                r2 = proj.gwf(["run"])
                if r2.code != 0 or r2.crashed:
                    v("C07", "local-run-failed", r2.brief())
                for n_ in r2.submitting():
                    submissions[n_] = submissions.get(n_, 0) + 1
                labels.add("second-wave")
            # wait for the pool to settle
            deadline = time.monotonic() + 90
            table = {}
            while time.monotonic() < deadline:
                rs = proj.gwf(["status"])
                table = rs.status_rows()
                if rs.code == 0 and not any(s in ("submitted", "running") for s in table.values()):
                    break
                time.sleep(0.15)
            else:
                labels.add("inconclusive-timeout")
                return viols, labels, {"inconclusive": True}
            time.sleep(0.2)
            with open(journal) as f:
                jl = [l.split() for l in f.read().splitlines() if l.strip()]
            start = {l[1]: int(l[3]) for l in jl if l[0] == "start"}
            pids = {l[1]: int(l[2]) for l in jl if l[0] == "start"}
            end = {l[1]: int(l[2]) for l in jl if l[0] == "end"}
            child = {l[1]: int(l[2]) for l in jl if l[0] == "child"}
            starts_per_name = {}
            for l in jl:
                if l[0] == "start":
                    starts_per_name[l[1]] = starts_per_name.get(l[1], 0) + 1
            # ---- C11 / C07: a task starts only after every dependency ended successfully
            for i, t in enumerate(tasks):
                n = names[i]
                if n not in start:
                    continue
                for d in t["deps"]:
                    dn = names[d]
                    ok_dep = tasks[d]["rc"] == 0 and d not in cancelled
                    if dn not in end or end[dn] > start[n]:
                        v("C11", "started-before-dependency-ended", f"{n} started at {start[n]} but dependency {dn} ended at {end.get(dn)}")
                    elif tasks[d]["rc"] != 0:
                        v("C11", "started-after-dependency-failed", f"{n} started although dependency {dn} exited {tasks[d]['rc']}")
            # ---- C12: overlap of certainly-alive intervals
            events = []
            for n in start:
                if n in end:
                    events.append((start[n], 1))
                    events.append((end[n], -1))
            live = peak = 0
            for _, d in sorted(events):
                live += d
                peak = max(peak, live)
            if peak > case["cores"]:
                v("C12", "too-many-live", f"{peak} task processes were alive at once on {case['cores']} worker(s)")
            if case.get("wide"):
                # as many independent long tasks as workers, submitted together: none of them has to wait for a core,
                # so every one starts before the first one ends
                labels.add("more-workers-than-cpus" if case["cores"] > (os.cpu_count() or 1) else "as-many-tasks-as-workers")
                if len(end) == len(names) and len(start) == len(names):
                    late = sorted(n for n in names if start[n] > min(end.values()))
                    if late:
                        v("C12", "idle-worker", f"pool of {case['cores']} workers, {len(names)} independent tasks of "
                          f"{tasks[0]['sleep_ms']} ms submitted by one `gwf run`: {late} only started after another task had "
                          f"ended (most alive at once: {peak})")
            if not submissions:
                # the wording of gwf's progress messages is not part of any property: without them the
                # number of submissions per target is unknown and the checks built on it are skipped
                submissions = {n: 10 ** 6 for n in names}
                labels.add("submission-count-unknown")
            for n, k in starts_per_name.items():
                if k > submissions.get(n, 0):
                    v("C13", "respawn", f"{n} was started {k} times but submitted {submissions.get(n, 0)} time(s)")
            resubmitted = {n for n, k in submissions.items() if 1 < k < 10 ** 6}
            # ---- C02: a target whose job is certainly still running is never submitted again
            if t_r2_ns is not None:
                first_start, first_end = {}, {}
                for l in jl:
                    if l[0] == "start":
                        first_start.setdefault(l[1], int(l[3]))
                    elif l[0] == "end":
                        first_end.setdefault(l[1], int(l[2]))
                for n in sorted(resubmitted):
                    i = names.index(n)
                    if i in cancel_ns and cancel_ns[i] < t_r2_ns:
                        continue  # cancelled before the second run: re-submission is expected
                    # its job must not have failed, nor may anything upstream have failed or been cancelled
                    blocked = False
                    stack = [i]
                    while stack:
                        k = stack.pop()
                        if tasks[k]["rc"] != 0 or (k in cancel_ns and cancel_ns[k] < t_r2_ns):
                            blocked = True
                        stack.extend(tasks[k]["deps"])
                    if blocked:
                        continue
                    if n not in first_end or first_end[n] > t_r2_ns + 300_000_000:
                        v("C02", "resubmitted-while-in-flight",
                          f"{n} was pending or running (submitted by the first invocation, its job had not ended) when the "
                          f"second `gwf run` started, yet it was submitted again")
            # ---- C13: final states and logs
            # a cancelled task that a later run submitted again: its second job runs normally, but a dependent that
            # was already in the pool still hangs on the first, cancelled job (and is cancelled with it) unless it was
            # submitted again too - which of the two happens depends on how far the kill sequence had come when the
            # second run looked. Everything downstream of such a task is therefore not asserted.
            renewed = {i for i in cancelled if names[i] in resubmitted}
            cancelled = {i for i in cancelled if names[i] not in resubmitted}
            # did the cancel arrive in time?  A task that journalled its end before the cancel was sent had
            # finished: cancelling it changes nothing.  An end inside the cancel command's own duration is ambiguous.
            ambiguous = set()
            for i in sorted(cancelled):
                e = end.get(names[i])
                if e is not None and e < cancel_before_ns.get(i, 0):
                    cancelled.discard(i)
                    labels.add("cancel-after-finish")
                elif e is not None and e <= cancel_ns.get(i, 0) + 50_000_000:
                    cancelled.discard(i)
                    ambiguous.add(i)
            changed = True
            while changed:  # everything downstream of an ambiguous task is ambiguous too
                changed = False
                for i, t in enumerate(tasks):
                    if i not in ambiguous and any(d in ambiguous or d in renewed for d in t["deps"]):
                        ambiguous.add(i)
                        changed = True
            if renewed:
                labels.add("cancelled-task-submitted-again")
            failed_or_blocked = set()
            for i, t in enumerate(tasks):
                if t["rc"] != 0 or i in cancelled or any(d in failed_or_blocked for d in t["deps"]):
                    failed_or_blocked.add(i)
            for i, t in enumerate(tasks):
                n = names[i]
                st_ = table.get(n)
                ran_to_end = n in end
                if i in ambiguous:
                    continue
                if i not in failed_or_blocked and st_ == "cancelled":
                    v("C17", "unselected-target-cancelled",
                      f"{n} was not cancelled (nor anything it depends on), yet it shows cancelled; cancelled were "
                      f"{[names[c] for c in sorted(cancelled)]}")
                if i not in failed_or_blocked:
                    if st_ != "completed":
                        v("C13", "wrong-final", f"{n} ran successfully (journal end: {ran_to_end}) but shows {st_}", want="completed", got=st_)
                    elif not ran_to_end:
                        v("C13", "completed-without-running", f"{n} shows completed but never journalled its end")
                else:
                    if st_ == "completed" and i not in cancelled:
                        v("C13", "completed-without-success", f"{n} shows completed although it or a dependency failed/was cancelled")
                    if n in start and t["rc"] == 0 and not any(d in failed_or_blocked for d in t["deps"]) and i not in cancelled:
                        pass
                # logs of tasks that ran to their end
                if ran_to_end and i not in cancelled:
                    want_out = (b"o" * t["out_bytes"]) if t["out_bytes"] else f"out-of-{n}\n".encode()
                    want_err = (b"e" * (t["out_bytes"] // 2 + 1)) if t["out_bytes"] else f"err-of-{n}\n".encode()
                    for ext, want in ((".stdout", want_out), (".stderr", want_err)):
                        try:
                            with open(proj.path(f".gwf/logs/{n}{ext}"), "rb") as f:
                                got = f.read()
                        except OSError:
                            got = None
                        if got != want:
                            v("C13", "log-incomplete", f"{n}{ext}: {None if got is None else len(got)} bytes logged, the process wrote {len(want)}", stream=ext)
                    if t["out_bytes"] >= 100000:
                        labels.add("output-above-pipe-buffer")
            # ---- C17: a cancel that reached a certainly-running task must stop it
            for i in sorted(cancelled):
                n = names[i]
                if n in start and n in end and i in cancel_ns:
                    # generous margin: the pool handles the cancel request some time after `gwf cancel` returned
                    if start[n] < cancel_ns[i] - 150_000_000 and end[n] > cancel_ns[i] + 3_000_000_000:
                        v("C17", "cancel-ignored",
                          f"{n} was running when `gwf cancel {n}` returned, yet it ran on to its end "
                          f"{(end[n] - cancel_ns[i]) / 1e9:.1f}s later; cancel said: {cancel_out.get(i, '')[-160:]!r}")
                        v("C13", "cancel-ignored", f"{n} kept running after it had been cancelled")
            # ---- C13: nothing of a cancelled task keeps running
            if cancelled:
                deadline = time.monotonic() + 15
                while time.monotonic() < deadline:
                    left = [(names[i], p) for i in cancelled for p in (pids.get(names[i]), child.get(names[i]))
                            if p and names[i] not in end and pid_alive(p)]
                    if not left:
                        break
                    time.sleep(0.25)
                for n, p in left:
                    which = "grand-child" if p == child.get(n) else "shell"
                    v("C13", "process-survives-cancel", f"{which} process {p} of cancelled task {n} is still running 15 s after the cancel",
                      which=which)
                if any(names[i] in start and names[i] not in end for i in cancelled):
                    labels.add("cancel-hit-running")
                if any(tasks[i].get("grandchild") and names[i] in child and names[i] not in end for i in cancelled):
                    labels.add("cancel-hit-task-with-grandchild")
            # ---- C06: convergence on the local backend
            if not failed_or_blocked:
                before = sum(1 for l in jl if l[0] == "start")
                r3 = proj.gwf(["run"])
                time.sleep(0.3)
                with open(journal) as f:
                    after = sum(1 for l in f.read().splitlines() if l.startswith("start"))
                if "Submitting target" in r3.err or after != before:
                    v("C06", "rerun-not-noop", f"everything completed, yet the second run submitted: {r3.submitting()}", backend="local")
                labels.add("converged")
                for n, s_ in sorted(table.items()):
                    if s_ != "completed":
                        v("C06", "not-completed-after-successful-run", f"every task ran successfully, yet {n} shows {s_}",
                          backend="local", status=s_)
                if case.get("perturb") is not None and not [x for x in viols if x[0] == "C06"]:
                    # one output is deleted: exactly its producer and everything downstream runs again
                    i0 = case["perturb"] % len(names)
                    expect = {i0}
                    grew = True
                    while grew:
                        grew = False
                        for i, t in enumerate(tasks):
                            if i not in expect and any(d in expect for d in t["deps"]):
                                expect.add(i)
                                grew = True
                    os.remove(proj.path(names[i0] + ".out"))

                    def starts():
                        with open(journal) as f:
                            c = {}
                            for l in f.read().splitlines():
                                if l.startswith("start "):
                                    c[l.split()[1]] = c.get(l.split()[1], 0) + 1
                            return c

                    s0 = starts()
                    r4 = proj.gwf(["run"])
                    if r4.code != 0 or r4.crashed:
                        v("C06", "run-failed", r4.brief(), backend="local")
                    deadline = time.monotonic() + 60
                    while time.monotonic() < deadline:
                        rs = proj.gwf(["status"])
                        if rs.code == 0 and not any(s_ in ("submitted", "running") for s_ in rs.status_rows().values()):
                            break
                        time.sleep(0.15)
                    time.sleep(0.2)
                    s1 = starts()
                    got = {n for n in names if s1.get(n, 0) > s0.get(n, 0)}
                    want = {names[i] for i in expect}
                    if got != want:
                        v("C06", "rerun-set", f"after deleting {names[i0]}.out the run executed {sorted(got)}, expected exactly "
                          f"{sorted(want)}", backend="local", perturbation="delete")
                    labels.add("perturb-delete")
            info = {"peak": peak, "started": len(start), "cancel_hit_running": "cancel-hit-running" in labels}
        finally:
            pool.stop()
    return viols, labels, info


# ---------------------------------------------------------------------------------------------------------------
# `gwf cancel` of several targets against a pool that does not know some of them (C17)

@st.composite
def restart_cancel_case(draw, max_tasks=6):
    """Targets whose latest job is: stale (accepted by an earlier pool that was killed and restarted, so the
    running pool has never heard of the id), live (running now), finished (ran to its end in the running pool),
    never (not submitted).  Then one `gwf cancel` naming several of them."""
    n = draw(st.integers(3, max_tasks))
    kinds = [draw(st.sampled_from(["stale", "stale", "live", "live", "finished", "never"])) for _ in range(n)]
    kinds[draw(st.integers(0, n - 1))] = "live"
    if not any(k in ("stale", "finished") for k in kinds):
        j = draw(st.sampled_from([i for i, k in enumerate(kinds) if k != "live"] or [0]))
        kinds[j] = draw(st.sampled_from(["stale", "finished"]))
        if "live" not in kinds:
            kinds[(j + 1) % n] = "live"
    everything = draw(st.sampled_from([True, True, False]))
    if everything:
        select = None
    else:
        select = sorted(draw(st.sets(st.integers(0, n - 1), min_size=2)))
    return {"kind": "restart-cancel", "kinds": kinds, "select": select, "same_port": draw(st.booleans())}


def run_restart_cancel(case):
    """Returns (violations [(prop, sig, msg)], labels, info)."""
    import re

    viols, labels = [], set()

    def v(kind, msg, **sig):
        viols.append(("C17", {"kind": kind, "tier": "real-restart", **sig}, msg))

    kinds = case["kinds"]
    names = [f"k{i}" for i in range(len(kinds))]
    of = {k: [names[i] for i, x in enumerate(kinds) if x == k] for k in ("stale", "live", "finished", "never")}
    LONG = 12000
    with project.Project({"targets": [], "files": {}}, backend="local") as proj:
        journal = proj.path("journal.txt")
        open(journal, "w").close()
        targets = []
        for i, k in enumerate(kinds):
            t = {"rc": 0, "sleep_ms": 40 if k == "finished" else LONG, "out_bytes": 0}
            spec = task_spec(names[i], t, journal)
            if k == "finished":
                spec = spec.replace(f"echo made > {names[i]}.out\n", "")  # it ends, but its output is not there
            targets.append({"name": names[i], "inputs": [], "outputs": [f"{names[i]}.out"], "spec": spec, "wd": None})
        proj.write_desc({"targets": targets, "files": {}})

        def journal_lines():
            with open(journal) as f:
                return [l.split() for l in f.read().splitlines() if l.strip()]

        def wait_for(pred, secs):
            deadline = time.monotonic() + secs
            while time.monotonic() < deadline:
                if pred(journal_lines()):
                    return True
                time.sleep(0.05)
            return False

        pools, stray = [], []
        try:
            cores = len(names) + 1
            pool = Pool(proj.dir, cores)
            pools.append(pool)
            proj.write_config({"backend": "local", "backend.local.port": pool.port, "backend.local.host": "127.0.0.1"})
            if of["stale"]:
                r = proj.gwf(["run", *of["stale"]])
                if r.code != 0 or r.crashed:
                    raise SubjectFailure("run against the first pool failed: " + r.brief())
                if not wait_for(lambda jl: {l[1] for l in jl if l[0] == "start"} >= set(of["stale"]), 15):
                    return viols, {"inconclusive-timeout"}, {"inconclusive": True}
                stray = [int(l[2]) for l in journal_lines() if l[0] == "start"]
                pool.stop()
                for pid in stray:  # the tasks of the killed pool run in sessions of their own: end them as well
                    for target in (lambda p: os.killpg(p, signal.SIGKILL), lambda p: os.kill(p, signal.SIGKILL)):
                        try:
                            target(pid)
                        except (ProcessLookupError, PermissionError):
                            pass
                time.sleep(0.2)
                pool = Pool(proj.dir, cores, port=pool.port if case["same_port"] else None)
                pools.append(pool)
                proj.write_config({"backend": "local", "backend.local.port": pool.port, "backend.local.host": "127.0.0.1"})
                labels.add("pool-restarted")
            now = of["live"] + of["finished"]
            r = proj.gwf(["run", *now])
            if r.code != 0 or r.crashed:
                raise SubjectFailure("run against the pool failed: " + r.brief())

            def settled(jl):
                st_ = {l[1] for l in jl if l[0] == "start" and int(l[2]) not in stray}
                en = {l[1] for l in jl if l[0] == "end"}
                return st_ >= set(now) and en >= set(of["finished"])

            if not wait_for(settled, 15):
                return viols, {"inconclusive-timeout"}, {"inconclusive": True}
            time.sleep(0.3)  # the pool notices the end of the short tasks
            pid_of = {}
            for l in journal_lines():
                if l[0] == "start" and int(l[2]) not in stray:
                    pid_of[l[1]] = int(l[2])
            started_ns = time.time_ns()
            selected = names if case["select"] is None else [names[i] for i in case["select"]]
            args = ["cancel", "-f"] if case["select"] is None else ["cancel", *selected]
            rc = proj.gwf(args)
            t_cancel = time.monotonic()
            text = rc.out + rc.err
            if rc.crashed or rc.code != 0:
                v("local-cancel-failed", f"`gwf {' '.join(args)}` with jobs {dict(zip(names, kinds))}: {rc.brief()}")
            sel_live = [n for n in selected if n in of["live"]]
            unsel_live = [n for n in of["live"] if n not in selected]
            # every selected target with a running job is cancelled, whatever else was selected
            deadline = t_cancel + 5
            while time.monotonic() < deadline and any(pid_alive(pid_of[n]) for n in sel_live):
                time.sleep(0.1)
            ended = {l[1] for l in journal_lines() if l[0] == "end"}
            for n in sel_live:
                if pid_alive(pid_of[n]) and n not in ended:
                    v("selected-running-target-not-cancelled",
                      f"`gwf {' '.join(args)}` (latest jobs: {dict(zip(names, kinds))}) returned {rc.code}, yet the process "
                      f"{pid_of[n]} of {n} is still running 5 s later; output: {text[-300:]!r}",
                      other=sorted({kinds[names.index(m)] for m in selected if m != n}))
            for n in unsel_live:
                if not pid_alive(pid_of[n]) and n not in ended:
                    v("unselected-target-cancelled", f"{n} was not selected by `gwf {' '.join(args)}` but its process is gone")
            rs = proj.gwf(["status"])
            table = rs.status_rows()
            if rs.code != 0 or rs.crashed:
                v("status-failed", rs.brief())
            else:
                for n in sel_live:
                    if table.get(n) in ("submitted", "running"):
                        v("still-in-flight-after-cancel", f"{n} shows {table.get(n)} after `gwf {' '.join(args)}` "
                          f"(latest jobs: {dict(zip(names, kinds))})", backend="local")
                for n in unsel_live:
                    if table.get(n) != "running" and n not in ended:
                        v("unselected-target-cancelled", f"{n} was not selected but shows {table.get(n)}")
            # every selected target that could not be cancelled is reported (wording is free: it must be named
            # somewhere beyond the "Cancelling target <name>" progress line)
            for n in selected:
                k = kinds[names.index(n)]
                if k == "live":
                    continue
                word = re.compile(r"(?<![A-Za-z0-9_.])" + re.escape(n) + r"(?![A-Za-z0-9_.])")
                mentions = sum(1 for line in text.splitlines() if word.search(line))
                if mentions < 2 and not word.search(rc.out):
                    v("uncancellable-not-reported",
                      f"{n} ({k}: {'its job id is unknown to the running pool' if k == 'stale' else 'its job had already ended' if k == 'finished' else 'never submitted'}) "
                      f"could not be cancelled but `gwf {' '.join(args)}` does not say so: {text[-300:]!r}", job=k)
            labels.add("cancel")
            if len(sel_live) >= 1 and any(kinds[names.index(m)] in ("stale", "finished") for m in selected):
                labels.add("live-and-uncancellable-selected")
            for k in ("stale", "finished", "never"):
                if any(kinds[names.index(m)] == k for m in selected):
                    labels.add("selected-" + k)
        finally:
            for p_ in pools:
                p_.stop()
            try:
                for l in journal_lines():
                    if l[0] == "start":
                        for fn in (os.killpg, os.kill):
                            try:
                                fn(int(l[2]), signal.SIGKILL)
                            except (ProcessLookupError, PermissionError):
                                pass
            except OSError:
                pass
    return viols, labels, {"nontrivial": "live-and-uncancellable-selected" in labels}
