"""Shared strategy and case interpretation for C11, C12, C13 (virtual tier)."""

from hypothesis import strategies as st

from .runner import CaseResult, Violation
from . import vpool


def step_strategy(big_payloads=False, faults=True):
    submit = st.tuples(
        st.just("submit"),
        st.lists(st.integers(0, 7), max_size=3),
        st.sampled_from([None, None, None, None, 1, 3, 5, 30]),
        st.sampled_from([False] * 9 + [True]) if faults else st.just(False),
        st.sampled_from([0, 0, 7, 70000] if big_payloads else [0, 0, 7]),
        st.sampled_from([0, 3]),
        st.sampled_from([False, False, True]),  # the script ignores SIGTERM
        # None: the loop runs until nothing is left to do; n: only n iterations, so that the next step (a cancel,
        # another submission) arrives while this task is at one of its first await points
        st.sampled_from([None] * 6 + [0, 1, 2, 3, 4]),
    )
    exit_ = st.tuples(st.just("exit"), st.integers(0, 5),
                      st.sampled_from([0, 0, 0, 0, 1, 2, 127, -15]))
    cancel = st.tuples(st.just("cancel"), st.integers(0, 7))
    advance = st.tuples(st.just("advance"), st.sampled_from([0.5, 1, 1.5, 2, 5, 11, 12, 31]))
    logs = st.tuples(st.just("logs"), st.booleans())
    parts = [submit, submit, submit, exit_, exit_, exit_, cancel, advance, advance]
    if faults:
        parts.append(logs)
    return st.one_of(*parts)


@st.composite
def history(draw, max_steps=30, big_payloads=False, burst=True, faults=True):
    cores = draw(st.sampled_from([1, 1, 2, 2, 3, 4]))
    steps = draw(st.lists(step_strategy(big_payloads, faults), min_size=1, max_size=max_steps))
    steps = [list(s) for s in steps]
    if faults and draw(st.sampled_from([False, False, False, True])):
        # a cancel that lands inside the kill sequence of a task that ran over its time limit
        k = draw(st.integers(0, len(steps)))
        immune = draw(st.booleans())
        scen = [["submit", [], 1, False, 0, 0, immune], ["advance", draw(st.sampled_from([1, 1.5, 5]))],
                ["cancel", draw(st.integers(0, 7))], ["advance", draw(st.sampled_from([0.5, 1, 12]))]]
        steps = steps[:k] + scen + steps[k:]
    if burst and draw(st.booleans()):
        n = cores + draw(st.integers(1, 3))
        steps += [["submit", [], None, False, 0, 0, False] for _ in range(n)]
        steps += [list(s) for s in draw(st.lists(step_strategy(False, False), max_size=6))]
    return {"cores": cores, "steps": steps}


def run(case, prop):
    if case.get("kind") == "real":
        from . import realpool

        viols, labels, info = realpool.run_real(case)
        labels = set(labels) | {"real-processes"}
        info = dict({"n_tasks": len(case["tasks"]), "max_live": info.get("peak", 0), "dep_not_ok_with_multi": False,
                     "skipped_dependents": 0, "cancel_hits": len(case["cancels"]),
                     "cancel_running": 1 if info.get("cancel_hit_running") else 0, "timeouts": 0, "start_failures": 0,
                     "log_failures": 0}, **info)
    else:
        viols, labels, info = vpool.run_history(case)
    mine = [Violation({"prop": p, **sig}, msg) for (p, sig, msg) in viols if p == prop]
    return mine, labels, info


def real_extra(quick, thorough):
    from . import realpool

    return [{"name": "real", "strategy": lambda tier: realpool.real_case(6 if tier == "quick" else 8),
             "examples": {"quick": quick, "thorough": thorough}, "wall_s": 240}]


def wide_extra():
    from . import realpool

    return [{"name": "real_wide", "strategy": lambda tier: realpool.wide_case(),
             "examples": {"quick": 4, "thorough": 16}, "wall_s": 240}]
