"""Reference model written from the property statements.  Imports nothing from gwf.

A workflow description (`desc`) is plain JSON:

  {"targets": [ {"name", "inputs": <enc>, "outputs": <enc>, "protect": <enc>,
                 "spec", "options": {...}, "wd": null | "rel/dir"} , ...],
   "files":   {"rel/path": tick | null, ...}}          # null = missing

<enc> is an encoded container: a string leaf, {"__p": s} (PathLike leaf),
{"__abs": s} (absolute spelling of project-relative s), a JSON list,
{"__t": [...]} (tuple), {"__d": {k: <enc>}} (dict).
All paths in the model are project-relative, normalised strings.
"""

import posixpath

ROOT = "/__root__"


# ---------------------------------------------------------------- paths

def leaves(enc):
    """All path leaves of an encoded container, as (kind, text)."""
    out = []

    def rec(e):
        if isinstance(e, str):
            out.append(("str", e))
        elif isinstance(e, list):
            for x in e:
                rec(x)
        elif isinstance(e, dict):
            if "__p" in e:
                out.append(("path", e["__p"]))
            elif "__abs" in e:
                out.append(("abs", e["__abs"]))
            elif "__pabs" in e:
                out.append(("abs", e["__pabs"]))
            elif "__t" in e:
                for x in e["__t"]:
                    rec(x)
            elif "__d" in e:
                for x in e["__d"].values():
                    rec(x)
            elif "__m" in e:
                for x in e["__m"].values():
                    rec(x)
            elif "__it" in e:  # a one-shot iterator over the members
                for x in e["__it"]:
                    rec(x)
            else:
                raise ValueError(f"bad encoded container {e!r}")
        else:
            raise ValueError(f"bad encoded container {e!r}")

    rec(enc)
    return out


def resolve_leaf(kind, text, wd):
    """Project-relative normalised path of one leaf of a target with working dir wd."""
    if kind == "abs":
        p = posixpath.normpath(posixpath.join(ROOT, text))
    else:
        p = posixpath.normpath(posixpath.join(ROOT, wd or "", text))
    if p == ROOT:
        return "."
    if p.startswith(ROOT + "/"):
        return p[len(ROOT) + 1:]
    return p  # escaped the project; keep absolute


def resolved(enc, wd):
    return [resolve_leaf(k, t, wd) for k, t in leaves(enc)]


class T:
    """Resolved view of one target."""

    def __init__(self, d):
        self.name = d["name"]
        self.wd = d.get("wd") or ""
        self.inputs = resolved(d.get("inputs", []), self.wd)
        self.outputs = resolved(d.get("outputs", []), self.wd)
        self.protect = set(resolved(d.get("protect", []), self.wd))
        self.inset = set(self.inputs)
        self.outset = set(self.outputs)
        self.spec = d.get("spec", "")
        self.options = d.get("options", {})


class Resolved:
    def __init__(self, desc):
        self.targets = [T(d) for d in desc["targets"]]
        self.by_name = {t.name: t for t in self.targets}
        self.files = dict(desc.get("files", {}))
        self.producers = {}
        for t in self.targets:
            for p in t.outset:
                self.producers.setdefault(p, []).append(t.name)
        self.deps = {
            t.name: {q for p in t.inset for q in self.producers.get(p, [])} for t in self.targets
        }
        self.dependents = {t.name: set() for t in self.targets}
        for n, ds in self.deps.items():
            for d in ds:
                self.dependents[d].add(n)
        self.unresolved = {p for t in self.targets for p in t.inset if p not in self.producers}

    def endpoints(self):
        return {n for n, ds in self.dependents.items() if not ds}

    def exists(self, p):
        return self.files.get(p) is not None

    # -- validity (C04): the set of defect kinds that apply ------------------
    def defects(self):
        kinds = set()
        if any(len(v) > 1 for v in self.producers.values()):
            kinds.add("multiple-providers")
        if any(not self.exists(p) for p in self.unresolved):
            kinds.add("unresolved-input")
        if self.has_cycle():
            kinds.add("cycle")
        return kinds

    def has_cycle(self):
        # iterated removal of nodes without remaining predecessors (Kahn); no recursion
        indeg = {n: len(ds) for n, ds in self.deps.items()}
        ready = [n for n, k in indeg.items() if k == 0]
        seen = 0
        while ready:
            n = ready.pop()
            seen += 1
            for m in self.dependents[n]:
                indeg[m] -= 1
                if indeg[m] == 0:
                    ready.append(m)
        return seen != len(indeg)

    def cone(self, names):
        out, stack = set(), list(names)
        while stack:
            n = stack.pop()
            if n not in out:
                out.add(n)
                stack.extend(self.deps[n])
        return out

    def downstream(self, names):
        out, stack = set(), list(names)
        while stack:
            n = stack.pop()
            if n not in out:
                out.add(n)
                stack.extend(self.dependents[n])
        return out

    def depth(self):
        memo = {}
        order = self.topo()
        for n in order:
            memo[n] = 1 + max((memo[d] for d in self.deps[n]), default=0)
        return max(memo.values(), default=0)

    def topo(self):
        indeg = {n: len(ds) for n, ds in self.deps.items()}
        ready = sorted(n for n, k in indeg.items() if k == 0)
        out = []
        while ready:
            n = ready.pop()
            out.append(n)
            for m in sorted(self.dependents[n]):
                indeg[m] -= 1
                if indeg[m] == 0:
                    ready.append(m)
        return out

    # -- staleness (C01) ------------------------------------------------------
    def stale(self, name, hashing=False, records=None):
        """records: name -> spec text recorded (model keeps the text, not the hash)."""
        t = self.by_name[name]
        if hashing:
            if (records or {}).get(name) != t.spec:
                return True
        if not t.outset:
            return True
        if any(not self.exists(p) for p in t.outset):
            return True
        ins = [self.files[p] for p in t.inset]
        outs = [self.files[p] for p in t.outset]
        if ins and max(ins) > min(outs):
            return True
        return False

    # -- plan (C02) -------------------------------------------------------------
    def plan(self, requested, backend, hashing=False, records=None):
        """backend: name -> one of unknown/submitted/running/completed/failed/cancelled.
        Returns (status: name->str for the cone, submissions: list of (name, set(prereqs)))
        in one valid order (dependencies first)."""
        status = {}
        subs = []
        order = [n for n in self.topo() if n in self.cone(requested)]
        for n in order:
            b = backend.get(n, "unknown")
            incomplete = {d for d in self.deps[n] if status[d] != "completed"}
            if b == "submitted":
                status[n] = "submitted"
            elif b == "running":
                status[n] = "running"
            elif b == "failed":
                status[n] = "failed"
                subs.append((n, incomplete))
            elif b == "cancelled":
                status[n] = "cancelled"
                subs.append((n, incomplete))
            elif incomplete or self.stale(n, hashing, records):
                status[n] = "shouldrun"
                subs.append((n, incomplete))
            else:
                status[n] = "completed"
        return status, subs


def match_names(names, patterns):
    """Shell-style name patterns as documented for gwf (fnmatch semantics), written out
    here so the model does not call the same library routine gwf uses."""
    import re

    def to_re(pat):
        i, n, res = 0, len(pat), ""
        while i < n:
            c = pat[i]
            i += 1
            if c == "*":
                res += ".*"
            elif c == "?":
                res += "."
            elif c == "[":
                j = i
                if j < n and pat[j] == "!":
                    j += 1
                if j < n and pat[j] == "]":
                    j += 1
                while j < n and pat[j] != "]":
                    j += 1
                if j >= n:
                    res += "\\["
                else:
                    stuff = pat[i:j].replace("\\", "\\\\")
                    i = j + 1
                    if stuff[0] == "!":
                        stuff = "^" + stuff[1:]
                    elif stuff[0] == "^":
                        stuff = "\\" + stuff
                    res += "[" + stuff + "]"
            else:
                res += re.escape(c)
        return re.compile("(?s:" + res + ")\\Z")

    out = set()
    for p in patterns:
        r = to_re(p)
        out |= {n for n in names if r.match(n)}
    return out
