"""Simulated cluster schedulers (Slurm, SGE, LSF): the command-line contract of the
few commands gwf uses, written from the schedulers' manuals.  Imports nothing from gwf.

One SimCluster per case.  `exec(argv, stdin) -> (rc, stdout, stderr)` is the only entry
for commands; the harness drives job life-cycles through start/finish/cancel/... and
reads `log`, `jobs`, `journal`.
"""

import re
import shlex

MUTATING = {"sbatch", "scancel", "qsub", "qdel", "bsub", "bkill"}

# abstract job states
PENDING, RUNNING, DONE, FAILED, CANCELLED = "PENDING", "RUNNING", "DONE", "FAILED", "CANCELLED"


class SimError(Exception):
    """Simulator self-check failed (harness error, not a violation)."""


class Job:
    def __init__(self, jid, name, script, deps, raw_dep, order, argv):
        self.id = jid
        self.name = name
        self.script = script
        self.deps = deps  # list of (kind, [ids])   kind in afterok/afterany/after/afternotok/hold/done/ended/exit/started
        self.raw_dep = raw_dep
        self.order = order
        self.argv = argv
        self.state = PENDING
        self.fail_kind = None  # exit / timeout / oom / node_fail / boot_fail / deadline / preempted
        self.code = None  # displayed code override (C08)
        self.started_at = None
        self.ended_at = None
        self.in_queue = True  # visible in the live queue (squeue/qstat/bjobs)
        self.in_acct = True  # visible in accounting (sacct)
        self.acct_state = None  # stale accounting override
        self.cancel_by = None
        self.foreign = False  # belongs to another user
        self.stdout_path = None
        self.stderr_path = None
        self.directives = {}
        self.family = None  # scheduler that issued the id: slurm / sge / lsf
        self.shadow = {}  # family -> displayed code of an unrelated job with the same id in another scheduler

    @property
    def ended(self):
        return self.state in (DONE, FAILED, CANCELLED)


class Fault:
    """Fail the k-th (1-based) invocation of `cmd`.  sticky: every later invocation with the same request (same
    arguments and input - a retry of the refused request) fails the same way."""

    def __init__(self, cmd, k, kind, sticky=False):
        self.cmd, self.k, self.kind, self.sticky = cmd, k, kind, sticky
        self.request = None


class SimCluster:
    def __init__(self, flavour, first_id=1001, id_step=1):
        assert flavour in ("slurm", "sge", "lsf")
        self.flavour = flavour
        self.next_id = first_id
        self.id_step = id_step
        self.jobs = {}  # id -> Job
        self.log = []  # every command: dict(cmd, argv, stdin, rc, out, err)
        self.journal = []  # (tick, event, id)
        self.tick = 0
        self.faults = []
        self.counts = {}
        self.anomalies = []  # e.g. unknown ids in an SGE hold list
        self.on_accept = None  # callback(job) right after a job has been accepted
        self.before_cmd = None  # callback(cmd, n, argv)
        self.accounting_lag = False
        self._current_cmd = None

    # ------------------------------------------------------------------ commands
    def exec(self, argv, stdin=""):
        cmd = argv[0].rsplit("/", 1)[-1]
        self._current_cmd = cmd
        n = self.counts[cmd] = self.counts.get(cmd, 0) + 1
        if self.before_cmd:
            self.before_cmd(cmd, n, argv)
        request = (tuple(argv[1:]), stdin or "")
        fault = next((f for f in self.faults if f.cmd == cmd and (f.k == n or (f.sticky and f.request == request))), None)
        if fault is not None and fault.kind == "partial-error":
            # the command answers, but only in part: a truncated listing, an error message on stderr, exit status 0
            handler = getattr(self, "_cmd_" + cmd, None)
            rc, out, err = handler(list(argv[1:]), stdin or "")
            lines = out.splitlines(keepends=True)
            out = "".join(lines[: max(1, len(lines) // 2)]) if len(lines) > 1 else out
            rc, err = 0, err + f"{cmd}: error: Socket timed out on send/recv operation\n"
        elif fault is not None:
            fault.request = request
            rc, out, err = self._fault(cmd, fault.kind)
        else:
            handler = getattr(self, "_cmd_" + cmd, None)
            if handler is None:
                rc, out, err = 127, "", f"{cmd}: command not simulated\n"
            else:
                rc, out, err = handler(list(argv[1:]), stdin or "")
        self.log.append({"cmd": cmd, "argv": list(argv[1:]), "stdin": stdin, "rc": rc, "out": out, "err": err,
                         "fault": fault.kind if fault else None})
        return rc, out, err

    def _fault(self, cmd, kind):
        if kind == "exit1":
            return 1, "", f"{cmd}: error: Batch job submission failed: Socket timed out on send/recv operation\n"
        if kind == "stderr-error":
            return 0, "", f"{cmd}: error: Unable to contact slurm controller (connect failure)\n"
        if kind == "garbage":
            return 1, "@@@ \x00 not a job id\n", f"{cmd}: Communication failure\n"
        if kind == "garbage0":
            # the command "succeeds" but prints a notice instead of its usual output
            return 0, "*** scheduler maintenance in progress, please try again later ***\n", ""
        if kind == "exit1-plain":
            # a failure whose message does not carry the word "error:" (sbatch: fatal: ..., "Unable to run job: ...")
            return 1, "", {"sbatch": "sbatch: fatal: Invalid account or account/partition combination specified\n",
                           "qsub": "Unable to run job: denied: host is no submit host.\nExiting.\n",
                           "bsub": "Request aborted by esub. Job not submitted.\n"}.get(cmd, f"{cmd}: fatal: request refused\n")
        if kind == "busy":
            # the scheduler puts the request off (LSF: mbatchd busy; SGE: qmaster not reachable)
            return 255, "", {"bkill": "LSF is processing your request. Please wait ...\n",
                             "bsub": "LSF is processing your request. Please wait ...\n",
                             "qsub": "error: commlib error: got select error (Connection refused)\n",
                             "qdel": "error: commlib error: got select error (Connection refused)\n",
                             }.get(cmd, f"{cmd}: error: Socket timed out on send/recv operation. Please wait ...\n")
        if kind == "killed":
            return -9, "", ""  # the scheduler command was killed (no output at all)
        raise SimError(f"unknown fault kind {kind}")

    def mutating_log(self):
        return [e for e in self.log if e["cmd"] in MUTATING]

    def submissions(self):
        """Accepted submissions in order: list of Job."""
        return sorted((j for j in self.jobs.values() if not j.foreign), key=lambda j: j.order)

    def latest(self, name):
        js = [j for j in self.jobs.values() if j.name == name and not j.foreign]
        return max(js, key=lambda j: j.order) if js else None

    def _new_job(self, name, script, deps, raw_dep, argv):
        jid = str(self.next_id)
        self.next_id += self.id_step
        if jid in self.jobs:
            raise SimError("duplicate job id")
        job = Job(jid, name, script, deps, raw_dep, len(self.jobs), argv)
        job.family = {"sbatch": "slurm", "qsub": "sge", "bsub": "lsf"}.get(self._current_cmd, self.flavour)
        self.jobs[jid] = job
        self.tick += 1
        self.journal.append((self.tick, "submit", jid))
        if self.on_accept:
            self.on_accept(job)
        return job

    def add_foreign(self, jid, state=RUNNING, code=None):
        job = Job(str(jid), "other", "", [], None, -1, [])
        job.foreign = True
        job.state = state
        job.code = code
        self.jobs[str(jid)] = job
        return job

    # -- Slurm ---------------------------------------------------------------
    def _cmd_sbatch(self, args, stdin):
        parsable = False
        dep = None
        for a in args:
            if a == "--parsable":
                parsable = True
            elif a.startswith("--dependency="):
                dep = a[len("--dependency="):]
            elif a.startswith("-d") and len(a) > 2:
                dep = a[2:]
            else:
                return 1, "", f"sbatch: unrecognized option '{a}'\n"
        deps = []
        if dep is not None:
            try:
                deps = parse_slurm_dependency(dep)
            except ValueError as exc:
                return 1, "", f"sbatch: error: Batch job submission failed: Job dependency problem ({exc})\n"
            for _, ids in deps:
                for i in ids:
                    if i not in self.jobs:
                        return 1, "", "sbatch: error: Batch job submission failed: Job dependency problem\n"
        d = parse_directives(stdin, "#SBATCH")
        name = d.get("--job-name") or d.get("-J") or "sbatch"
        if not stdin.startswith("#!"):
            return 1, "", "sbatch: error: This does not look like a batch script.\n"
        job = self._new_job(name, stdin, deps, dep, args)
        job.directives = d
        job.stdout_path = d.get("--output") or d.get("-o")
        job.stderr_path = d.get("--error") or d.get("-e")
        out = f"{job.id}\n" if parsable else f"Submitted batch job {job.id}\n"
        # an accepted submission may still carry a note on stderr (no "error:" in it)
        note = "sbatch: Warning: can't run 1 processes on 2 nodes, setting nnodes to 1\n" if int(job.id) % 4 in (1, 2) else ""
        return 0, out, note

    def _cmd_squeue(self, args, stdin):
        fmt = None
        noheader = False
        for a in args:
            if a.startswith("--format="):
                fmt = a[len("--format="):]
            elif a in ("--noheader", "-h"):
                noheader = True
            elif a in ("--all", "-a"):
                pass
            else:
                return 1, "", f"squeue: unrecognized option '{a}'\n"
        if fmt != "%i;%t":
            return 1, "", "squeue: error: Invalid job format specification\n"
        lines = [] if noheader else ["JOBID;ST"]
        for j in sorted(self.jobs.values(), key=lambda j: int(j.id)):
            if j.family not in (None, "slurm"):
                if "slurm" in j.shadow:
                    lines.append(f"{j.id};{j.shadow['slurm']}")
                continue
            if j.in_queue:
                lines.append(f"{j.id};{self.slurm_short(j)}")
        return 0, "".join(l + "\n" for l in lines), ""

    def _cmd_sacct(self, args, stdin):
        ids = None
        it = iter(args)
        for a in it:
            if a == "--jobs" or a == "-j":
                ids = next(it, "")
            elif a.startswith("--jobs="):
                ids = a[len("--jobs="):]
            elif a in ("--noheader", "--parsable2", "--allocations", "-n", "-P", "-X"):
                pass
            elif a.startswith("--format="):
                if a != "--format=jobid,state":
                    return 1, "", "sacct: error: Invalid field requested\n"
            else:
                return 1, "", f"sacct: unrecognized option '{a}'\n"
        if ids is None:
            return 1, "", "sacct: error: no job list\n"
        lines = []
        for i in ids.split(","):
            j = self.jobs.get(i)
            if j is None or not j.in_acct or j.foreign or j.family not in (None, "slurm"):
                continue
            lines.append(f"{j.id}|{self.slurm_long(j)}")
        return 0, "".join(l + "\n" for l in lines), ""

    def _cmd_scancel(self, args, stdin):
        ids = [a for a in args if not a.startswith("-")]
        verbose = "--verbose" in args or "-v" in args
        err = ""
        for i in ids:
            j = self.jobs.get(i)
            if verbose:
                # scancel announces the signal before it learns the outcome; a refusal follows on the next line
                # and the exit status stays 0
                err += f"scancel: Terminating job {i}\n"
            if j is None or j.ended or j.foreign:
                err += f"scancel: error: Kill job error on job id {i}: Invalid job id specified\n"
            else:
                self.cancel(j.id, by="user")
        return 0, "", err

    def _cmd_sinfo(self, args, stdin):
        return 0, "PARTITION AVAIL\nnormal* up\n", ""

    SLURM_CLASS = {
        PENDING: ("PD", "PENDING"), RUNNING: ("R", "RUNNING"), DONE: ("CD", "COMPLETED"),
        CANCELLED: ("CA", "CANCELLED"),
    }
    SLURM_FAIL = {
        "exit": ("F", "FAILED"), "timeout": ("TO", "TIMEOUT"), "oom": ("OOM", "OUT_OF_MEMORY"),
        "node_fail": ("NF", "NODE_FAIL"), "boot_fail": ("BF", "BOOT_FAIL"), "deadline": ("DL", "DEADLINE"),
    }

    def slurm_short(self, j):
        if j.code:
            return j.code[0] if isinstance(j.code, (list, tuple)) else j.code
        if j.state == FAILED:
            return self.SLURM_FAIL[j.fail_kind or "exit"][0]
        return self.SLURM_CLASS[j.state][0]

    def slurm_long(self, j):
        if j.acct_state:
            return j.acct_state
        if j.code and isinstance(j.code, (list, tuple)):
            return j.code[1]
        if j.state == FAILED:
            return self.SLURM_FAIL[j.fail_kind or "exit"][1]
        if j.state == CANCELLED:
            return "CANCELLED by 1000" if j.cancel_by else "CANCELLED"
        return self.SLURM_CLASS[j.state][1]

    # -- SGE -----------------------------------------------------------------
    def _cmd_qsub(self, args, stdin):
        terse = False
        hold = []
        it = iter(args)
        for a in it:
            if a == "-terse":
                terse = True
            elif a == "-hold_jid":
                hold = [x for x in next(it, "").split(",")]
            else:
                return 1, "", f"qsub: Unknown option {a}\n"
        for i in hold:
            if i not in self.jobs:
                # real SGE silently ignores ids it does not know: the job may start at once
                self.anomalies.append(("unknown-hold-id", i))
        d = parse_directives(stdin, "#$")
        name = d.get("-N") or "STDIN"
        known = [i for i in hold if i in self.jobs]
        job = self._new_job(name, stdin, [("hold", known)] if known else [], ",".join(hold) if hold else None, args)
        job.raw_hold = hold
        job.directives = d
        job.stdout_path = d.get("-o")
        job.stderr_path = d.get("-e")
        out = f"{job.id}\n" if terse else f'Your job {job.id} ("{name}") has been submitted\n'
        return 0, out, ""

    SGE_CODE = {PENDING: "qw", RUNNING: "r"}

    def sge_code(self, j):
        if j.code:
            return j.code
        # some jobs carry additional flags that do not change what they are: a job rescheduled after a host failure
        # (R), a user hold placed on a running job (h), a job being transferred to its host (t)
        v = int(j.id) % 5 if j.id.isdigit() else 0
        if j.state == PENDING:
            held = bool(j.deps) and not self.deps_released(j)
            if v == 2:
                return "hRq" if held else "Rq"
            return "hqw" if held else "qw"
        if j.state == RUNNING:
            return {1: "hr", 3: "Rr", 4: "t"}.get(v, "r")
        return self.SGE_CODE.get(j.state)

    def _cmd_qstat(self, args, stdin):
        if args != ["-f", "-xml"]:
            return 1, "", "qstat: unsupported options in simulation\n"
        run, pend = [], []
        for j in sorted(self.jobs.values(), key=lambda j: int(j.id)):
            if j.family not in (None, "sge"):
                if "sge" not in j.shadow:
                    continue
                code = j.shadow["sge"]
                run.append(f'      <job_list state="running">\n        <JB_job_number>{j.id}</JB_job_number>\n'
                           f"        <JB_name>other</JB_name>\n        <state>{code}</state>\n      </job_list>\n")
                continue
            if not j.in_queue or j.ended:
                continue
            code = self.sge_code(j)
            xml = (
                f'      <job_list state="{"running" if j.state == RUNNING else "pending"}">\n'
                f"        <JB_job_number>{j.id}</JB_job_number>\n"
                f"        <JAT_prio>0.55500</JAT_prio>\n"
                f"        <JB_name>{j.name}</JB_name>\n"
                f"        <JB_owner>{'other' if j.foreign else 'me'}</JB_owner>\n"
                f"        <state>{code}</state>\n"
                f"        <slots>1</slots>\n"
                f"      </job_list>\n"
            )
            (run if j.state == RUNNING else pend).append(xml)
        out = (
            "<?xml version='1.0'?>\n<job_info  xmlns:xsd=\"http://arc.liv.ac.uk/repos/darcs/sge/source/dist/util/resources/schemas/qstat/qstat.xsd\">\n"
            "  <queue_info>\n    <Queue-List>\n      <name>all.q@node1</name>\n      <qtype>BIP</qtype>\n"
            "      <slots_used>1</slots_used>\n      <slots_resv>0</slots_resv>\n      <slots_total>8</slots_total>\n"
            "      <arch>lx-amd64</arch>\n" + "".join(run) + "    </Queue-List>\n  </queue_info>\n"
            "  <job_info>\n" + "".join(pend) + "  </job_info>\n</job_info>\n"
        )
        return 0, out, ""

    def _cmd_qdel(self, args, stdin):
        ids = [a for a in args if not a.startswith("-")]
        out, rc = "", 0
        for i in ids:
            j = self.jobs.get(i)
            if j is None or j.ended or j.foreign:
                out += f'denied: job "{i}" does not exist\n'
                rc = 1
            else:
                self.cancel(j.id, by="user")
                out += f"me has deleted job {i}\n"
        return rc, out, ""

    # -- LSF -----------------------------------------------------------------
    def _cmd_bsub(self, args, stdin):
        expr = None
        it = iter(args)
        for a in it:
            if a == "-w":
                expr = next(it, "")
            else:
                return 255, "", f"bsub: Illegal option -- {a}\n"
        deps = []
        if expr is not None:
            try:
                tree = parse_lsf_expr(expr)
            except ValueError as exc:
                return 255, "", f"{expr}: Bad dependency expression ({exc}). Job not submitted.\n"
            for i in lsf_ids(tree):
                if i not in self.jobs:
                    return 255, "", f"{i}: Dependency condition invalid or never satisfied. Job not submitted.\n"
            deps = [("lsf", tree)]
        d = parse_directives(stdin, "#BSUB")
        name = d.get("-J") or "job"
        job = self._new_job(name, stdin, deps, expr, args)
        job.directives = d
        job.stdout_path = d.get("-oo") or d.get("-o")
        job.stderr_path = d.get("-eo") or d.get("-e")
        q = d.get("-q") or "normal"
        return 0, f"Job <{job.id}> is submitted to queue <{q}>.\n", ""

    LSF_CODE = {PENDING: "PEND", RUNNING: "RUN", DONE: "DONE", FAILED: "EXIT", CANCELLED: "EXIT"}

    def _cmd_bjobs(self, args, stdin):
        if len(args) < 4 or args[:3] != ["-noheader", "-o", "stat"]:
            return 255, "", "bjobs: unsupported options in simulation\n"
        # one line on stdout per job that LSF still knows, in the order asked; a note on stderr for each of the others
        out, err = "", ""
        for jid in args[3:]:
            j = self.jobs.get(jid)
            if j is not None and j.family not in (None, "lsf"):
                if "lsf" in j.shadow:
                    out += j.shadow["lsf"] + "\n"
                else:
                    err += f"Job <{jid}> is not found\n"
            elif j is None or not j.in_queue or j.foreign:
                err += f"Job <{jid}> is not found\n"
            else:
                out += (j.code or self.LSF_CODE[j.state]) + "\n"
        return 0, out, err

    def _cmd_bkill(self, args, stdin):
        ids = [a for a in args if not a.startswith("-")]
        out, err, rc = "", "", 0
        for i in ids:
            j = self.jobs.get(i)
            if j is None or j.foreign:
                err += f"Job <{i}>: No matching job found\n"
                rc = 255
            elif j.ended:
                err += f"Job <{i}>: Job has already finished\n"
                rc = 255
            else:
                self.cancel(j.id, by="user")
                out += f"Job <{i}> is being terminated\n"
        return rc, out, err

    # ------------------------------------------------------------ life cycle
    def deps_released(self, j):
        """May the job start now, by the scheduler's dependency semantics?"""
        for kind, ids in j.deps:
            if kind == "lsf":
                if self._lsf_eval(ids) is not True:
                    return False
                continue
            for i in ids:
                d = self.jobs.get(i)
                if d is None:
                    continue
                if kind == "afterok" or kind == "done":
                    if d.state != DONE:
                        return False
                elif kind in ("afterany", "hold", "ended"):
                    if not d.ended:
                        return False
                elif kind == "after" or kind == "started":
                    if d.state == PENDING:
                        return False
                elif kind in ("afternotok", "exit"):
                    if d.state not in (FAILED, CANCELLED):
                        return False
        return True

    def deps_never(self, j):
        """The dependency can no longer be satisfied (DependencyNeverSatisfied)."""
        for kind, ids in j.deps:
            if kind == "lsf":
                if self._lsf_eval(ids) is False:
                    return True
                continue
            for i in ids:
                d = self.jobs.get(i)
                if d is None:
                    continue
                if kind in ("afterok", "done") and d.state in (FAILED, CANCELLED):
                    return True
                if kind in ("afternotok", "exit") and d.state == DONE:
                    return True
        return False

    def _lsf_eval(self, tree):
        """True / False (never) / None (not yet)."""
        op = tree[0]
        if op in ("done", "ended", "exit", "started"):
            d = self.jobs.get(tree[1])
            if d is None:
                return False
            if op == "done":
                return True if d.state == DONE else (False if d.ended else None)
            if op == "ended":
                return True if d.ended else None
            if op == "exit":
                return True if d.state in (FAILED, CANCELLED) else (False if d.state == DONE else None)
            if op == "started":
                return True if d.state != PENDING else None
        a = self._lsf_eval(tree[1])
        b = self._lsf_eval(tree[2])
        if op == "and":
            if a is False or b is False:
                return False
            return True if (a and b) else None
        if op == "or":
            if a is True or b is True:
                return True
            return False if (a is False and b is False) else None
        raise SimError(op)

    def startable(self):
        return [j for j in self.submissions() if j.state == PENDING and self.deps_released(j)]

    def running(self):
        return [j for j in self.submissions() if j.state == RUNNING]

    def start(self, jid):
        j = self.jobs[jid]
        if j.state != PENDING or not self.deps_released(j):
            raise SimError(f"illegal start of {jid}")
        j.state = RUNNING
        self.tick += 1
        j.started_at = self.tick
        self.journal.append((self.tick, "start", jid))
        return j

    def finish(self, jid, ok=True, fail_kind="exit"):
        j = self.jobs[jid]
        if j.state != RUNNING:
            raise SimError(f"illegal finish of {jid}")
        j.state = DONE if ok else FAILED
        j.fail_kind = None if ok else fail_kind
        self.tick += 1
        j.ended_at = self.tick
        self.journal.append((self.tick, "end-ok" if ok else "end-fail", jid))
        return j

    def cancel(self, jid, by="user"):
        j = self.jobs[jid]
        if j.ended:
            return j
        j.state = CANCELLED
        j.cancel_by = by
        j.code = None  # a displayed-code override described the job while it was alive
        self.tick += 1
        j.ended_at = self.tick
        self.journal.append((self.tick, "cancel", jid))
        return j

    def age_out(self, jid, queue=True, acct=False):
        j = self.jobs[jid]
        if queue:
            j.in_queue = False
        if acct:
            j.in_acct = False

    def kill_never_satisfied(self):
        """Slurm/LSF remove (cancel) jobs whose dependency can never be satisfied."""
        changed = True
        out = []
        while changed:
            changed = False
            for j in self.submissions():
                if j.state == PENDING and self.deps_never(j):
                    self.cancel(j.id, by="scheduler")
                    out.append(j)
                    changed = True
        return out


# ---------------------------------------------------------------- parsers

def parse_directives(script, prefix):
    """'#SBATCH --job-name=x' / '#$ -N x' / '#BSUB -J x'  ->  {flag: value}. Last one wins;
    every occurrence is also kept under key ('__all__')."""
    out = {}
    allv = []
    for line in script.splitlines():
        if not line.startswith(prefix):
            if line.strip() and not line.startswith("#"):
                break  # directives must precede the first command
            continue
        rest = line[len(prefix):].strip()
        if not rest:
            continue
        if rest.startswith("--") and "=" in rest.split(None, 1)[0]:
            flag, _, val = rest.partition("=")
        else:
            parts = rest.split(None, 1)
            flag = parts[0]
            val = parts[1] if len(parts) > 1 else ""
        out[flag] = val
        allv.append((flag, val))
    out["__all__"] = allv
    return out


def parse_slurm_dependency(text):
    """afterok:1:2,afterany:3  (also '?' separator) -> [(kind, [ids])]"""
    if not text:
        raise ValueError("empty")
    out = []
    for part in re.split(r"[,?]", text):
        bits = part.split(":")
        kind = bits[0]
        if kind not in ("after", "afterany", "afterok", "afternotok", "aftercorr", "singleton"):
            raise ValueError(f"bad dependency type {kind!r}")
        ids = bits[1:]
        if kind != "singleton" and not ids:
            raise ValueError("no job ids")
        for i in ids:
            if not re.fullmatch(r"[0-9]+(_[0-9]+)?(\+[0-9]+)?", i):
                raise ValueError(f"bad job id {i!r}")
        out.append((kind, ids))
    return out


def parse_lsf_expr(text):
    """done(1) && (ended(2) || exit(3))  ->  nested tuples."""
    toks = re.findall(r"\s*(&&|\|\||\(|\)|[A-Za-z_]+|[0-9]+|\S)", text)
    pos = [0]

    def peek():
        return toks[pos[0]] if pos[0] < len(toks) else None

    def eat(t=None):
        tok = peek()
        if tok is None or (t is not None and tok != t):
            raise ValueError(f"expected {t!r} at token {pos[0]} in {text!r}")
        pos[0] += 1
        return tok

    def atom():
        tok = peek()
        if tok == "(":
            eat("(")
            e = expr()
            eat(")")
            return e
        if tok in ("done", "ended", "exit", "started", "post_done", "post_err"):
            eat()
            eat("(")
            jid = eat()
            if not jid.isdigit():
                raise ValueError(f"bad job id {jid!r}")
            eat(")")
            return (tok, jid)
        if tok is not None and tok.isdigit():  # bare id means done(id)
            eat()
            return ("done", tok)
        raise ValueError(f"unexpected token {tok!r} in {text!r}")

    def conj():
        e = atom()
        while peek() == "&&":
            eat()
            e = ("and", e, atom())
        return e

    def expr():
        e = conj()
        while peek() == "||":
            eat()
            e = ("or", e, conj())
        return e

    e = expr()
    if peek() is not None:
        raise ValueError(f"trailing tokens in {text!r}")
    return e


def lsf_ids(tree):
    if tree[0] in ("and", "or"):
        return lsf_ids(tree[1]) + lsf_ids(tree[2])
    return [tree[1]]


def lsf_is_done_conjunction(tree):
    """Is the expression exactly a conjunction of done(id)?  Returns the ids or None."""
    if tree[0] == "done":
        return [tree[1]]
    if tree[0] == "and":
        a, b = lsf_is_done_conjunction(tree[1]), lsf_is_done_conjunction(tree[2])
        return None if a is None or b is None else a + b
    return None


CLIENT_NAMES = ["sbatch", "squeue", "sacct", "scancel", "sinfo", "qsub", "qstat", "qdel", "bsub", "bjobs", "bkill"]
