#!/venv/bin/python
"""Sensitivity self-test: small source mutations that must be caught by the quick checks.

usage: selftest/mutants.py [--only ID[,ID]] [--prop C12] [--jobs N] [--pytest]

Each mutant is a textual replacement in a scratch copy of /repo/src (under /dev/shm,
removed afterwards).  The named property's quick check is run with GWF_VERIF_SRC
pointing at the copy and is expected to exit 1.  Not a registered check.
"""

import argparse
import json
import os
import shutil
import subprocess
import sys
import tempfile
from concurrent.futures import ThreadPoolExecutor

HERE = os.path.dirname(os.path.dirname(os.path.abspath(__file__)))
SRC = "/repo/src"

# (id, [properties expected to catch it], file, old, new)
M = [
    # ---- local pool
    ("pool-release-unacquired", ["C12"], "gwf/backends/local.py", "            if acquired:\n                self.cores_ressource.release()", "            self.cores_ressource.release()"),
    ("pool-sem-plus-one", ["C12"], "gwf/backends/local.py", "return asyncio.Semaphore(self.max_cores)", "return asyncio.Semaphore(self.max_cores + 1)"),
    ("pool-acquire-after-start", ["C12"], "gwf/backends/local.py", "            await self.cores_ressource.acquire()\n            acquired = True\n            self.task_states[tid] = LocalStatus.RUNNING\n", "            self.task_states[tid] = LocalStatus.RUNNING\n"),
    ("pool-first-completed", ["C13"], "gwf/backends/local.py", "return_when=asyncio.ALL_COMPLETED", "return_when=asyncio.FIRST_COMPLETED"),
    ("pool-check-first-dep-only", ["C11"], "gwf/backends/local.py", "                for dep_tid in deps:\n                    if self.task_states[dep_tid] != LocalStatus.COMPLETED:", "                for dep_tid in list(deps)[:1]:\n                    if self.task_states[dep_tid] != LocalStatus.COMPLETED:"),
    ("pool-killed-counts-completed", ["C11"], "gwf/backends/local.py", "                    if self.task_states[dep_tid] != LocalStatus.COMPLETED:", "                    if self.task_states[dep_tid] not in (LocalStatus.COMPLETED, LocalStatus.KILLED):"),
    ("pool-swap-failed-killed", ["C13"], "gwf/backends/local.py", "        except TaskFailedError:\n            self.task_states[tid] = LocalStatus.FAILED", "        except TaskFailedError:\n            self.task_states[tid] = LocalStatus.COMPLETED"),
    ("pool-cancel-final", ["C13"], "gwf/backends/local.py", "        if self.task_states.get(tid) in (LocalStatus.SUBMITTED, LocalStatus.RUNNING):", "        if True:"),
    ("local-cancel-unreported", ["C17"], "gwf/backends/local.py", "        if state not in (LocalStatus.SUBMITTED, LocalStatus.RUNNING):\n            raise BackendError(f\"Task {job_id} is not submitted or running.\")\n", ""),
    ("pool-no-catchall", ["C13"], "gwf/backends/local.py", "        except Exception:\n            logger.exception(\"task %s could not be run\", name)\n            if proc is not None and proc.returncode is None:\n                await self._gentle_kill(proc)\n            self.task_states[tid] = LocalStatus.FAILED\n", ""),
    ("pool-timeout-completed", ["C13"], "gwf/backends/local.py", "            self.task_states[tid] = LocalStatus.KILLED", "            self.task_states[tid] = LocalStatus.COMPLETED"),
    ("pool-logs-swapped", ["C13"], "gwf/backends/local.py", "                    log_file.write(stderr)", "                    log_file.write(stdout)"),
    ("abs-path-not-normalised", ["C03"], "gwf/core.py", "        return os.path.normpath(path)\n", "        return path\n"),
    # ---- staleness
    ("stale-ge", ["C01"], "gwf/scheduling.py", "    if youngest_in_ts > oldest_out_ts:", "    if youngest_in_ts >= oldest_out_ts:"),
    ("stale-min-in", ["C01"], "gwf/scheduling.py", "    youngest_in_ts, _ = max(", "    youngest_in_ts, _ = min("),
    ("stale-max-out", ["C01"], "gwf/scheduling.py", "    oldest_out_ts, _ = min(", "    oldest_out_ts, _ = max("),
    ("stale-no-output-rule", ["C01"], "gwf/scheduling.py", "    if not target.flattened_outputs():", "    if False:"),
    ("stale-container-truthiness", ["C01"], "gwf/scheduling.py", "    if not target.flattened_outputs():", "    if not target.outputs:"),
    ("stale-ignore-spec", ["C01", "C18"], "gwf/scheduling.py", "    if new_hash is not None:", "    if False:"),
    ("flatten-top-only", ["C01", "C03"], "gwf/core.py", "            for k, v in g.items():\n                flatten_rec(v)", "            for k, v in g.items():\n                res.append(v) if isinstance(v, str) else flatten_rec(v[:1])"),
    # ---- plan
    ("plan-failed-not-prereq", ["C02"], "gwf/scheduling.py", "    Status.FAILED,\n    Status.CANCELLED,\n)", "    Status.CANCELLED,\n)"),
    ("plan-no-memo", ["C05"], "gwf/scheduling.py", "            if node in cache:\n                stack.pop()\n                continue", "            if node in cache and node is not target:\n                stack.pop()\n                continue"),
    ("plan-all-deps", ["C02"], "gwf/scheduling.py", "            if status in SUBMITTED_STATES:\n                submitted_deps.append(dep)", "            submitted_deps.append(dep)"),
    ("plan-run-ignores-patterns", ["C02", "C05"], "gwf/plugins/run.py", "endpoints = filter_names(graph, targets) if targets else graph.endpoints()", "endpoints = graph.endpoints()"),
    ("plan-running-resubmitted", ["C02"], "gwf/scheduling.py", "        if status_func(target) == BackendStatus.RUNNING:\n            logger.debug(\"Target %s is already running\", target)\n            return Status.RUNNING", "        if status_func(target) == BackendStatus.RUNNING:\n            submit_func(target, dependencies=submitted_deps)\n            return Status.RUNNING"),
    # ---- graph
    ("graph-norm-outputs-only", ["C03"], "gwf/core.py", "    def flattened_inputs(self):\n        return _norm_paths(self.working_dir, _flatten(self.inputs))", "    def flattened_inputs(self):\n        return [os.path.join(self.working_dir, fspath(p)) for p in _flatten(self.inputs)]"),
    ("graph-endpoints-from-deps", ["C03"], "gwf/core.py", "return set(self.targets.values()) - set(self.dependents.keys())", "return set(self.targets.values()) - set(self.dependencies.keys())"),
    ("info-swap", ["C03"], "gwf/plugins/info.py", "(\"dependents\", [target.name for target in graph.dependents[target]]),", "(\"dependents\", [target.name for target in graph.dependencies[target]]),"),
    ("cycle-first-only", ["C04"], "gwf/core.py", "    for node in nodes:\n        if state[node] == fresh:\n            visitor(node)", "    for node in list(nodes)[:1]:\n        if state[node] == fresh:\n            visitor(node)"),
    ("cycle-no-started-test", ["C04"], "gwf/core.py", "                if state[dep] == started:", "                if False:"),
    ("unresolved-skipped", ["C04"], "gwf/core.py", "                if path in unresolved and not fs.exists(path):", "                if path in unresolved and not fs.exists(path) and len(target.flattened_inputs()) == 1:"),
    ("dup-unnormalised", ["C04"], "gwf/core.py", "                for path in target.flattened_outputs():\n                    if path in provides and provides[path] is not target:", "                for path in target.flattened_outputs():\n                    if False:"),
    # ---- previews
    ("dryrun-updates-hash", ["C05", "C18"], "gwf/scheduling.py", "    logger.info(\"Would submit %s\", target)", "    logger.info(\"Would submit %s\", target)\n    spec_hashes.update(target)"),
    ("dryrun-cleans-logs", ["C05"], "gwf/plugins/run.py", "    if ctx.config.get(\"clean_logs\") and not dry_run:", "    if ctx.config.get(\"clean_logs\"):"),
    ("status-endpoints-inverted", ["C05"], "gwf/plugins/status.py", "filters.append(EndpointFilter(endpoints=graph.endpoints()))", "filters.append(EndpointFilter(endpoints=graph.endpoints(), mode=\"exclude\"))"),
    # ---- clean
    ("clean-endpoint-mode", ["C15"], "gwf/plugins/clean.py", "mode=\"exclude\"", "mode=\"include\""),
    ("clean-protect-unnormalised", ["C15"], "gwf/core.py", "        return set(_norm_paths(self.working_dir, _flatten(self.protect)))", "        return set(os.path.join(self.working_dir, fspath(p)) for p in _flatten(self.protect))"),
    ("clean-inputs-too", ["C15"], "gwf/plugins/clean.py", "            for path in target.flattened_outputs():\n                if path in target.protected():\n                    logger.info(", "            for path in target.flattened_outputs() + target.flattened_inputs():\n                if path in target.protected():\n                    logger.info("),
    ("clean-prompt-ignored", ["C15"], "gwf/plugins/clean.py", "            abort=True,\n        )", "            abort=False,\n        )"),
    ("clean-all-hashes", ["C15", "C18"], "gwf/plugins/clean.py", "        for target in matches:\n            logger.info(\"Clearing hash for %s\", target)\n            spec_hashes.invalidate(target)", "        for target in graph:\n            spec_hashes.invalidate(target)\n        for target in matches:"),
    # ---- touch
    ("touch-before-deps", ["C16"], "gwf/plugins/touch.py", "            if pending:\n                stack.extend(pending)\n                continue\n            visited.add(target)\n            stack.pop()\n            _touch(target)", "            visited.add(target)\n            stack.pop()\n            _touch(target)\n            stack.extend(pending)"),
    ("touch-no-memo", ["C16"], "gwf/plugins/touch.py", "            if target in visited:\n                stack.pop()\n                continue", "            if target in visited:\n                stack.pop()\n                _touch(target)\n                continue"),
    ("touch-inputs", ["C16"], "gwf/plugins/touch.py", "        for path in target.flattened_outputs():", "        for path in target.flattened_outputs() + target.flattened_inputs():"),
    ("touch-truncate", ["C16"], "gwf/plugins/touch.py", "            Path(path).touch(exist_ok=True)", "            open(path, \"w\").close()"),
    ("touch-ignore-selection", ["C16"], "gwf/plugins/touch.py", "    endpoints = filter_names(graph, targets) if targets else graph.endpoints()", "    endpoints = graph.endpoints()"),
    ("touch-no-hash", ["C16", "C18"], "gwf/plugins/touch.py", "        spec_hashes.update(target)\n", ""),
    # ---- convergence / prerequisites / states
    ("sched-trust-backend-completed", ["C06"], "gwf/scheduling.py", "        if submitted_deps:\n            logger.debug(", "        if status_func(target) == BackendStatus.COMPLETED:\n            return Status.COMPLETED\n\n        if submitted_deps:\n            logger.debug("),
    ("slurm-afterany", ["C07"], "gwf/backends/slurm.py", "--dependency=afterok:{}", "--dependency=afterany:{}"),
    ("slurm-dep-comma", ["C07", "C02"], "gwf/backends/slurm.py", "\":\".join(dependencies)", "\",\".join(dependencies)"),
    ("lsf-or", ["C07"], "gwf/backends/lsf.py", "\" && \".join(", "\" || \".join("),
    ("lsf-ended", ["C07"], "gwf/backends/lsf.py", "f\"done({job_id})\"", "f\"ended({job_id})\""),
    ("sge-no-hold", ["C07", "C02"], "gwf/backends/sge.py", "        if dependencies:\n            args.append(\"-hold_jid\")\n            args.append(\",\".join(dependencies))\n", ""),
    ("sge-no-strip", ["C07", "C08"], "gwf/backends/sge.py", "input=script).strip()", "input=script)"),
    ("local-no-deps", ["C07"], "gwf/backends/local.py", "            deps=deps or [],", "            deps=[],"),
    ("slurm-prefix-id", ["C08"], "gwf/backends/slurm.py", "            if job_id in tracked_jobs:\n                job_states[job_id] = SLURM_JOB_STATES[state]", "            for t in tracked_jobs:\n                if t.startswith(job_id):\n                    job_states[t] = SLURM_JOB_STATES[state]"),
    ("slurm-timeout-submitted", ["C08"], "gwf/backends/slurm.py", "    \"TO\": BackendStatus.FAILED,", "    \"TO\": BackendStatus.SUBMITTED,"),
    ("slurm-no-strip", ["C08", "C02"], "gwf/backends/slurm.py", "return call(\"sbatch\", *args, input=script).strip()", "return call(\"sbatch\", *args, input=script)"),
    ("slurm-acct-always", ["C08", "C20"], "gwf/backends/slurm.py", "        if self.accounting_enabled:\n            job_states.update", "        if True:\n            job_states.update"),
    ("base-status-any-job", ["C08"], "gwf/backends/base.py", "        return self._job_states.get(job_id, BackendStatus.UNKNOWN)", "        return self._job_states.get(job_id, next(iter(self._job_states.values()), BackendStatus.UNKNOWN))"),
    # ---- interrupted runs
    ("persist-nonatomic", ["C09"], "gwf/utils.py", "    tmp_path = \"{}.tmp\".format(path)\n    with open(tmp_path, \"w\") as tmp_file:\n        json.dump(obj, tmp_file, **kwargs)\n    os.replace(tmp_path, path)", "    with open(path, \"w\") as tmp_file:\n        json.dump(obj, tmp_file, **kwargs)"),
    ("persist-only-at-exit", ["C09"], "gwf/backends/base.py", "        self._save_tracked_jobs()\n\n    def cancel", "\n    def cancel"),
    ("hash-before-submit", ["C09", "C18"], "gwf/scheduling.py", "    backend.submit(target, dependencies)\n    spec_hashes.update(target)", "    spec_hashes.update(target)\n    backend.submit(target, dependencies)"),
    # ---- scripts
    ("script-no-set-e", ["C10"], "gwf/backends/slurm.py", "        out.append(\"set -e\")\n", ""),
    ("script-strip-spec", ["C10"], "gwf/backends/sge.py", "out.append(ensure_trailing_newline(target.spec))", "out.append(ensure_trailing_newline(target.spec.strip()))"),
    ("script-no-cd", ["C10"], "gwf/backends/lsf.py", "        out.append(\"cd {}\".format(shlex.quote(target.working_dir)))\n", ""),
    ("options-defaults-win", ["C10"], "gwf/scheduling.py", "        new_options = dict(backend.target_defaults)\n    new_options.update(target.options)", "        new_options = dict(target.options)\n    new_options.update({k: v for k, v in backend.target_defaults.items() if v is not None})"),
    ("options-none-printed", ["C10"], "gwf/scheduling.py", "        elif option_value is None:\n            del new_options[option_name]", "        elif option_value is None:\n            pass"),
    ("options-template-over-kwargs", ["C10"], "gwf/workflow.py", "options=chain(self.defaults, template.options, options),", "options=chain(self.defaults, options, template.options),"),
    ("slurm-logs-swapped", ["C10"], "gwf/backends/slurm.py", "                    \"--error=\",\n                    os.path.join(\n                        self.working_dir, \".gwf\", \"logs\", target.name + \".stderr\"", "                    \"--error=\",\n                    os.path.join(\n                        self.working_dir, \".gwf\", \"logs\", target.name + \".stdout\""),
    ("clean-logs-all", ["C10"], "gwf/plugins/run.py", "    for log_name in log_files.difference(target_set):", "    for log_name in log_files:"),
    ("sge-mem-total", ["C10"], "gwf/backends/sge.py", "option_value = \"{}{}\".format(number // cores, unit)", "option_value = \"{}{}\".format(number, unit)"),
    # ---- server
    ("server-states-only-running", ["C14"], "gwf/backends/local.py", "    def get_task_states(self):\n        return dict(self.task_states)", "    def get_task_states(self):\n        return {k: v for k, v in self.task_states.items() if v == LocalStatus.RUNNING}"),
    ("server-reset-on-connect", ["C14"], "gwf/backends/local.py", "    async def handle_connection(self, reader, writer):\n        while True:", "    async def handle_connection(self, reader, writer):\n        self.scheduler.task_states = dict(self.scheduler.task_states) if len(self.scheduler.task_states) < 3 else {}\n        while True:"),
    # ---- cancel
    ("cancel-break", ["C17"], "gwf/plugins/cancel.py", "                \"(maybe not running or submitted?)\"\n            )", "                \"(maybe not running or submitted?)\"\n            )\n            break"),
    ("cancel-all", ["C17"], "gwf/plugins/cancel.py", "        targets = filter_names(graph, targets)", "        targets = list(graph)"),
    ("cancel-no-prompt", ["C17"], "gwf/plugins/cancel.py", "\"This will cancel all targets! Do you want to continue?\", abort=True", "\"This will cancel all targets! Do you want to continue?\", abort=False"),
    # ---- hashes, definition, config
    ("hash-norecord-unchanged", ["C18", "C01"], "gwf/core.py", "            logger.debug(\"No spec hash for %s exists\", target)\n            return spec_hash", "            logger.debug(\"No spec hash for %s exists\", target)\n            return None"),
    ("hash-default-on", ["C18"], "gwf/conf.py", "\"use_spec_hashes\": False", "\"use_spec_hashes\": True"),
    ("template-wd-no-fallback", ["C19"], "gwf/workflow.py", "working_dir=template.working_dir or self.working_dir,", "working_dir=template.working_dir or \".\","),
    ("name-allows-dash", ["C19"], "gwf/utils.py", "[a-zA-Z_][a-zA-Z0-9._]*", "[a-zA-Z_][a-zA-Z0-9._-]*"),
    ("path-check-skips-dicts", ["C19"], "gwf/core.py", "def _validate_path(instance, attribute, value):\n    for path in _flatten(value):", "def _validate_path(instance, attribute, value):\n    for path in ([] if isinstance(value, Mapping) else _flatten(value)):"),
    ("workflow-wd-cwd", ["C19"], "gwf/workflow.py", "        return os.path.dirname(os.path.realpath(filename))", "        return os.getcwd()"),
    ("conf-str-first", ["C20"], "gwf/conf.py", "CONVERTERS = (\n    try_int,\n    try_true,\n    try_false,\n    str,\n)", "CONVERTERS = (\n    str,\n    try_int,\n    try_true,\n    try_false,\n)"),
    ("conf-unset-prefix", ["C20"], "gwf/conf.py", "        if key in self.data.maps[0]:\n            del self.data[key]", "        for k in [k for k in self.data.maps[0] if k.startswith(key)]:\n            del self.data.maps[0][k]"),
    ("conf-beats-flag", ["C20"], "gwf/cli.py", "    backend = backend or config.get(\"backend\")", "    backend = config.get(\"backend\") or backend"),
    ("conf-off-is-false", ["C20"], "gwf/conf.py", "    if value in (\"false\", \"no\"):\n        return False", "    if value in (\"false\", \"no\", \"off\"):\n        return False"),
    ("workers-ignore-n", ["C12"], "gwf/plugins/workers.py", "start_cluster(ctx.working_dir, num_workers, host, port)", "start_cluster(ctx.working_dir, multiprocessing.cpu_count(), host, port)"),
    ("info-pretty-raw-containers", ["C03"], "gwf/plugins/info.py", "print_list(_flatten(target.outputs), as_filename=True)", "print_list(target.outputs, as_filename=True)"),
    ("tid-restart-at-zero", ["C08"], "gwf/backends/local.py", "return itertools.count(time.time_ns() // 1000)", "return itertools.count()"),
    ("killpg-only-shell", ["C13"], "gwf/backends/local.py", "            os.killpg(proc.pid, sig)", "            os.kill(proc.pid, sig)"),
    ("atomic-replace-before-close", ["C09"], "gwf/utils.py", "        json.dump(obj, tmp_file, **kwargs)\n    os.replace(tmp_path, path)", "        json.dump(obj, tmp_file, **kwargs)\n        os.replace(tmp_path, path)"),
    ("template-default-dot", ["C19"], "gwf/core.py", "    group: str = attrs.field(default=None)\n    working_dir: str = attrs.field(default=None)\n    protect: set = attrs.field(factory=set, converter=set)\n    spec: str = attrs.field(default=\"\")\n\n    def __attrs_post_init__", "    group: str = attrs.field(default=None)\n    working_dir: str = attrs.field(default=\".\")\n    protect: set = attrs.field(factory=set, converter=set)\n    spec: str = attrs.field(default=\"\")\n\n    def __attrs_post_init__"),
    ("lsf-susp-failed", ["C08"], "gwf/backends/lsf.py", "    \"USUSP\": BackendStatus.RUNNING,", "    \"USUSP\": BackendStatus.FAILED,"),
    ("sge-cores-keyerror", ["C10"], "gwf/backends/sge.py", "cores = target.options.get(\"cores\", 1)", "cores = target.options[\"cores\"]"),
    ("cd-unquoted", ["C10"], "gwf/backends/slurm.py", "out.append(\"cd {}\".format(shlex.quote(target.working_dir)))", "out.append(\"cd {}\".format(target.working_dir))"),
    ("summary-empty", ["C05"], "gwf/plugins/status.py", "    max_count = max(status_counts.values(), default=0)", "    _, max_count = status_counts.most_common()[0]"),
    ("recursion-touch", ["C04"], "gwf/plugins/touch.py", "    for target in endpoints:\n        _visit(target)", "    def _rec(t):\n        for d in graph.dependencies[t]:\n            if d not in visited:\n                _rec(d)\n        if t not in visited:\n            visited.add(t)\n            _touch(t)\n\n    for target in endpoints:\n        _rec(target)"),
]


def run_one(m, args):
    mid, props, rel, old, new = m
    base = "/dev/shm" if os.path.isdir("/dev/shm") else None
    tmp = tempfile.mkdtemp(prefix="gwfmut", dir=base)
    out = {"id": mid, "results": {}}
    try:
        src = os.path.join(tmp, "src")
        shutil.copytree(SRC, src, ignore=shutil.ignore_patterns("__pycache__"))
        p = os.path.join(src, rel)
        text = open(p).read()
        if text.count(old) != 1:
            out["error"] = f"pattern occurs {text.count(old)} times"
            return out
        open(p, "w").write(text.replace(old, new))
        r = subprocess.run([sys.executable, "-c", f"import sys; sys.path.insert(0, {src!r}); import gwf.cli, gwf.backends.local, gwf.plugins.touch, gwf.plugins.clean, gwf.plugins.run, gwf.plugins.status, gwf.plugins.info"],
                           capture_output=True, text=True)
        if r.returncode != 0:
            out["error"] = "mutant does not import: " + r.stderr[-300:]
            return out
        if args.pytest:
            r = subprocess.run([sys.executable, "-m", "pytest", "-q", "-x", "-p", "no:cacheprovider", "/repo/tests",
                                "--ignore=/repo/tests/plugins", "--ignore=/repo/tests/test_cli.py"],
                               capture_output=True, text=True, cwd=tmp,
                               env=dict(os.environ, PYTHONPATH=src))
            out["pytest"] = "pass" if r.returncode == 0 else "FAIL"
        for prop in props:
            if args.prop and prop != args.prop:
                continue
            env = dict(os.environ, GWF_VERIF_SRC=src, VERIF_JOBS=str(args.shards), VERIF_OUT=tmp)
            r = subprocess.run([sys.executable, os.path.join(HERE, "check.py"), prop, "--tier", "quick"],
                               capture_output=True, text=True, env=env, cwd=HERE, timeout=900)
            line = next((l for l in r.stdout.splitlines() if l.startswith("VIOLATION")), "")
            detail = [l for l in r.stdout.splitlines() if l.startswith("  {")][:1]
            out["results"][prop] = {"rc": r.returncode, "line": line, "detail": detail,
                                    "err": r.stderr[-300:] if r.returncode == 2 else ""}
    finally:
        shutil.rmtree(tmp, ignore_errors=True)
    return out


def main():
    ap = argparse.ArgumentParser()
    ap.add_argument("--only")
    ap.add_argument("--prop")
    ap.add_argument("--jobs", type=int, default=6)
    ap.add_argument("--shards", type=int, default=2)
    ap.add_argument("--pytest", action="store_true")
    args = ap.parse_args()
    ms = M
    if args.only:
        want = set(args.only.split(","))
        ms = [m for m in M if m[0] in want]
    if args.prop:
        ms = [m for m in ms if args.prop in m[1]]
    survived = 0
    with ThreadPoolExecutor(args.jobs) as ex:
        for out in ex.map(lambda m: run_one(m, args), ms):
            if "error" in out:
                print(f"{out['id']:32s} ERROR {out['error']}")
                survived += 1
                continue
            for prop, r in out["results"].items():
                ok = r["rc"] == 1
                if not ok:
                    survived += 1
                print(f"{out['id']:32s} {prop} {'KILLED' if ok else 'SURVIVED rc=' + str(r['rc'])} "
                      f"{out.get('pytest', '')} {(r['detail'] or [''])[0][:150]} {r['err']}")
    print(f"{survived} not killed")
    # evidence replays written by mutant runs are scratch output
    return 1 if survived else 0


if __name__ == "__main__":
    sys.exit(main())
