#!/venv/bin/python
"""Regenerate MANIFEST.json from the property modules (run from /verif)."""
import importlib
import json
import os
import sys

HERE = os.path.dirname(os.path.dirname(os.path.abspath(__file__)))
sys.path[:0] = [HERE, os.environ.get("GWF_VERIF_SRC", "/repo/src")]

ALL = [f"C{i:02d}" for i in range(1, 21)]
NOT_YET = {}

SETUP = ("/venv/bin/python -c 'import hypothesis' 2>/dev/null || /venv/bin/pip install -q --no-index "
         "--find-links /opt/veriftools/wheels --target /verif/.deps hypothesis; "
         "/venv/bin/python -c 'import sys; sys.path.insert(0,\"/verif/.deps\"); import atheris' 2>/dev/null || "
         "/venv/bin/pip install -q --no-index --find-links /opt/veriftools/wheels --target /verif/.deps atheris || true")


def main():
    checks, na = [], []
    for pid in ALL:
        path = os.path.join(HERE, "props", pid.lower() + ".py")
        if not os.path.exists(path):
            na.append({"property_id": pid, "reason": NOT_YET.get(pid, "check not built yet (planned in DESIGN.md section 4); nothing is claimed for it")})
            continue
        m = importlib.import_module("props." + pid.lower())
        checks.append({
            "property_id": pid,
            "quick_cmd": f"/venv/bin/python check.py {pid} --tier quick",
            "thorough_cmd": f"/venv/bin/python check.py {pid} --tier thorough",
            "evidence_file": f"/verif/evidence/{pid}.json",
            "replay_cmd_template": f"/venv/bin/python check.py {pid} --replay {{path}}",
            "engine": getattr(m, "ENGINE", "vlib"),
            "level_claimed": {
                "category": m.LEVEL,
                "text": getattr(m, "LEVEL_TEXT", m.RULE),
                "design_ref": f"DESIGN.md section 4, {pid}",
            },
            "level_note": "; ".join(m.ASSUMPTIONS),
            "technique": m.TECHNIQUE,
        })
    man = {
        "version": 1,
        "setup_cmd": SETUP,
        "hooks": {
            "guard": "GWFORG_GWF_VERIF",
            "enable": "no hooks: all instrumentation is external (monkeypatching inside the harness process, fake executables, virtual event loop); the guard name is reserved and unused",
            "baseline_off_cmd": "cd /repo && /venv/bin/python -m pytest -ra -q -p no:cacheprovider --timeout=900 --continue-on-collection-errors",
            "source_commits": [],
            "add_only": True,
        },
        "engines": [
            {"name": "runner", "path": "vlib/runner.py", "serves_properties": [c["property_id"] for c in checks],
             "kind_free_text": "Hypothesis driver (seeded, sharded), corpus replay, exhaustive sub-spaces, shrinking to replay files, evidence, known findings"},
        ],
        "checks": checks,
        "notes": "Property-based testing / fuzzing only. Genuine defects found and repaired are listed in known_findings.json (status fixed) and DESIGN.md section 5.",
        "not_applicable": na,
    }
    extra = os.path.join(HERE, "tools", "engines.json")
    if os.path.exists(extra):
        man["engines"] += json.load(open(extra))
    with open(os.path.join(HERE, "MANIFEST.json"), "w") as f:
        json.dump(man, f, indent=1)
        f.write("\n")
    print(f"{len(checks)} checks, {len(na)} not claimed")


main()
