#!/opt/veriftools/pyvenv/bin/python
import json, sys, glob, jsonschema
jsonschema.validate(json.load(open('/verif/MANIFEST.json')), json.load(open('/root/.vp/MANIFEST.schema.json')))
sch = json.load(open('/root/.vp/EVIDENCE.schema.json'))
bad = 0
for p in sorted(glob.glob('/verif/evidence/*.json')):
    try:
        jsonschema.validate(json.load(open(p)), sch)
    except Exception as e:
        bad += 1; print("INVALID", p, str(e)[:300])
print("manifest ok; evidence files:", len(glob.glob('/verif/evidence/*.json')), "invalid:", bad)
sys.exit(1 if bad else 0)
