#!/venv/bin/python
"""False-alarm test: run every quick check against behaviour-preserving refactorings of gwf.

usage: tools/benign.py adopt <worktree> <tag>     # copy <worktree>/demo/refactor_*.diff to benign/<tag>-<i>.diff
       tools/benign.py run [name ...] [--jobs N] [--props C01,C02]

Each diff is applied to a scratch copy of /repo's HEAD (under /dev/shm, removed afterwards), the 76 pinned
tests are run against it, then all twenty quick checks with GWF_VERIF_SRC pointing at the copy.
Any exit status other than 0 is a false alarm (or reveals that the refactoring was not behaviour-preserving;
each such case is looked at by hand and recorded in DESIGN.md).
"""

import argparse
import glob
import os
import shutil
import subprocess
import sys
import tempfile
from concurrent.futures import ThreadPoolExecutor

HERE = os.path.dirname(os.path.dirname(os.path.abspath(__file__)))
PY = "/venv/bin/python"
ALL = [f"C{i:02d}" for i in range(1, 21)]


def sh(cmd, cwd=None, env=None, timeout=3000):
    p = subprocess.run(cmd, cwd=cwd, env=env, capture_output=True, text=True, timeout=timeout)
    return p.returncode, p.stdout + p.stderr


def one(job):
    name, props = job
    diff = os.path.join(HERE, "benign", name + ".diff")
    tmp = tempfile.mkdtemp(prefix="gwfbenign", dir="/dev/shm")
    lines = []
    try:
        sh(["bash", "-c", f"git -C /repo archive HEAD src tests | tar -x -C {tmp}"])
        rc, out = sh(["patch", "-p1", "-s", "-i", diff], cwd=tmp)
        if rc != 0:
            return name, [f"{name}: patch does not apply: {out[-200:]}"]
        env = dict(os.environ, PYTHONPATH=os.path.join(tmp, "src"))
        rc, out = sh([PY, "-m", "pytest", "-q", "-p", "no:cacheprovider", "--timeout=900", "--continue-on-collection-errors",
                      "tests"], cwd=tmp, env=env)
        tl = [l for l in out.splitlines() if " passed" in l][-1:] or [out[-100:]]
        if "76 passed" not in tl[0]:
            lines.append(f"{name}: pinned tests: {tl[0]}")
        for prop in props:
            env = dict(os.environ, VERIF_OUT=os.path.join(tmp, "out"), GWF_VERIF_SRC=os.path.join(tmp, "src"), VERIF_JOBS="2")
            try:
                rc, out = sh([PY, os.path.join(HERE, "check.py"), prop, "--tier", "quick"], cwd=HERE, env=env, timeout=2400)
            except subprocess.TimeoutExpired:
                rc, out = 124, ""
            if rc != 0:
                detail = [l for l in out.splitlines() if l.startswith("  {") or "HARNESS" in l or "Error" in l][:2]
                lines.append(f"{name}: {prop} rc={rc} {' | '.join(detail)[:300]}")
        if not lines:
            lines.append(f"{name}: quiet ({len(props)} checks)")
    finally:
        shutil.rmtree(tmp, ignore_errors=True)
    return name, lines


def main():
    ap = argparse.ArgumentParser()
    sub = ap.add_subparsers(dest="cmd", required=True)
    a = sub.add_parser("adopt")
    a.add_argument("worktree")
    a.add_argument("tag")
    r = sub.add_parser("run")
    r.add_argument("names", nargs="*")
    r.add_argument("--jobs", type=int, default=6)
    r.add_argument("--props")
    args = ap.parse_args()
    os.makedirs(os.path.join(HERE, "benign"), exist_ok=True)
    if args.cmd == "adopt":
        for f in sorted(glob.glob(os.path.join(args.worktree, "demo", "refactor_*.diff"))):
            i = os.path.basename(f)[len("refactor_"):-len(".diff")]
            shutil.copy(f, os.path.join(HERE, "benign", f"{args.tag}-{i}.diff"))
            print("adopted", f"{args.tag}-{i}")
        return 0
    names = args.names or sorted(os.path.basename(f)[:-5] for f in glob.glob(os.path.join(HERE, "benign", "*.diff")))
    props = args.props.split(",") if args.props else ALL
    bad = 0
    with ThreadPoolExecutor(args.jobs) as ex:
        for name, lines in ex.map(one, [(n, props) for n in names]):
            for l in lines:
                print(l, flush=True)
                if "quiet" not in l:
                    bad += 1
    return 1 if bad else 0


sys.exit(main())
