#!/bin/bash
# Quietness on the unchanged tree: every quick check at several seeds, fresh processes.
# usage: tools/quiet.sh "2 3 4" [tier]
cd /verif
seeds=${1:-"2 3"}
tier=${2:-quick}
out=/dev/shm/quiet_out
rm -rf $out; mkdir -p $out
for s in $seeds; do
  for i in $(seq -w 1 20); do
    p=C$i
    r=$(VERIF_OUT=$out VERIF_SEED=$s timeout 3000 /venv/bin/python check.py $p --tier $tier 2>&1 | tail -1)
    echo "seed=$s $p rc=$? $r"
  done
done
rm -rf $out
