#!/venv/bin/python
"""Confirm a seeded change produced by a sub-agent and run the checks against it.

usage: tools/seeded.py adopt <PROP> <worktree> <i> [--needs "text"]     # verify + store under seeded/<PROP>-<i>/
       tools/seeded.py run [<ID> ...] [--tier quick] [--props C01,C05]  # apply to /repo, run checks, undo

`adopt` confirms in the agent's scratch worktree that with the patch the 76 pinned tests
still pass and the demonstration fails, and that without it the demonstration passes.
`run` applies seeded/<ID>/patch.diff to /repo, runs the property's check (or --props),
and always undoes it (git -C /repo checkout -- .).
"""

import argparse
import json
import os
import shutil
import subprocess
import sys

HERE = os.path.dirname(os.path.dirname(os.path.abspath(__file__)))
PY = "/venv/bin/python"


def sh(cmd, cwd=None, env=None, timeout=1200):
    p = subprocess.run(cmd, cwd=cwd, env=env, capture_output=True, text=True, timeout=timeout)
    return p.returncode, p.stdout + p.stderr


def run_tests(wt):
    env = dict(os.environ, PYTHONPATH=os.path.join(wt, "src"))
    rc, out = sh([PY, "-m", "pytest", "-q", "-p", "no:cacheprovider", "--timeout=900", "--continue-on-collection-errors",
                  "tests"], cwd=wt, env=env)
    line = [l for l in out.splitlines() if " passed" in l or " failed" in l][-1:] or [out[-200:]]
    ok = "76 passed" in line[0] and "failed" not in line[0]
    return ok, line[0]


def run_demo(wt, demo):
    env = dict(os.environ, PYTHONPATH=os.path.join(wt, "src"))
    path = os.path.join(wt, "demo", demo)
    text = open(path).read()
    if "def test_" in text and "__main__" not in text:
        cmd = [PY, "-m", "pytest", "-q", "-p", "no:cacheprovider", "-x", path]
    else:
        cmd = [PY, path]
    rc, out = sh(cmd, cwd=wt, env=env, timeout=900)
    return rc, out[-600:]


def adopt(args):
    wt, i, prop = args.worktree, args.i, args.prop
    patch = os.path.join(wt, "demo", f"patch_{i}.diff")
    demo = f"demo_{i}.py"
    st = sh(["git", "status", "--porcelain", "--", "src"], cwd=wt)[1].strip()
    if st:
        print("worktree src not clean:", st)
        return 1
    rc0, out0 = run_demo(wt, demo)
    rc, out = sh(["git", "apply", patch], cwd=wt)
    if rc != 0:
        print("patch does not apply:", out)
        return 1
    try:
        tests_ok, tline = run_tests(wt)
        rc1, out1 = run_demo(wt, demo)
    finally:
        sh(["git", "checkout", "--", "src"], cwd=wt)
    verdict = tests_ok and rc0 == 0 and rc1 != 0
    print(f"{prop}-{i}: tests with patch: {tline!r}; demo without patch rc={rc0}; with patch rc={rc1} -> {'CONFIRMED' if verdict else 'REJECTED'}")
    if not verdict:
        print(out0[-300:], "\n----\n", out1[-300:])
        return 1
    out_i = args.as_ or i
    d = os.path.join(HERE, "seeded", f"{prop}-{out_i}")
    os.makedirs(d, exist_ok=True)
    shutil.copy(patch, os.path.join(d, "patch.diff"))
    shutil.copy(os.path.join(wt, "demo", demo), os.path.join(d, "demo.py"))
    meta = {
        "id": f"{prop}-{out_i}", "property": prop, "source": "independent sub-agent given only the property text and a scratch worktree",
        "needs": args.needs or "", "confirmed": {
            "pinned_tests_with_patch": tline, "demo_without_patch_rc": rc0, "demo_with_patch_rc": rc1,
            "demo_output_with_patch": out1[-400:],
            "commands": [f"git apply patch.diff", "PYTHONPATH=<wt>/src /venv/bin/python -m pytest -q -p no:cacheprovider --timeout=900 --continue-on-collection-errors tests",
                         "PYTHONPATH=<wt>/src /venv/bin/python demo.py"]},
        "detected_by": {},
    }
    with open(os.path.join(d, "meta.json"), "w") as f:
        json.dump(meta, f, indent=1)
    return 0


def run_scratch_one(job):
    """Apply the patch to a scratch copy of /repo's HEAD (git archive) and point the checks at it."""
    sid, props, tier = job
    import tempfile

    d = os.path.join(HERE, "seeded", sid)
    tmp = tempfile.mkdtemp(prefix="gwfseed", dir="/dev/shm")
    out_lines = []
    results = {}
    try:
        rc, out = sh(["bash", "-c", f"git -C /repo archive HEAD src | tar -x -C {tmp}"])
        rc, out = sh(["git", "apply", "--unsafe-paths", f"--directory={tmp}", os.path.join(d, "patch.diff")], cwd=tmp)
        if rc != 0:
            rc, out = sh(["patch", "-p1", "-i", os.path.join(d, "patch.diff")], cwd=tmp)
        if rc != 0:
            return sid, {}, [f"{sid} patch does not apply: {out[-200:]}"]
        for prop in props:
            env = dict(os.environ, VERIF_OUT=os.path.join(tmp, "out"), GWF_VERIF_SRC=os.path.join(tmp, "src"),
                       VERIF_JOBS="2")
            try:
                rc, out = sh([PY, os.path.join(HERE, "check.py"), prop, "--tier", tier], cwd=HERE, env=env, timeout=2400)
            except subprocess.TimeoutExpired:
                rc, out = 124, ""
            detail = [l for l in out.splitlines() if l.startswith("  {")][:1]
            out_lines.append(f"{sid:10s} {prop} {'DETECTED' if rc == 1 else 'MISSED rc=' + str(rc)} {(detail or [''])[0][:170]}")
            results[f"{prop}:{tier}"] = {"rc": rc, "detail": (detail or [""])[0][:300]}
    finally:
        shutil.rmtree(tmp, ignore_errors=True)
    return sid, results, out_lines


def run(args):
    ids = args.ids or sorted(os.listdir(os.path.join(HERE, "seeded")))
    if args.scratch:
        from concurrent.futures import ThreadPoolExecutor

        jobs = []
        for sid in ids:
            mp = os.path.join(HERE, "seeded", sid, "meta.json")
            if os.path.exists(mp):
                meta = json.load(open(mp))
                jobs.append((sid, args.props.split(",") if args.props else [meta["property"]], args.tier))
        bad = 0
        with ThreadPoolExecutor(args.jobs) as ex:
            for sid, results, lines in ex.map(run_scratch_one, jobs):
                for l in lines:
                    print(l, flush=True)
                mp = os.path.join(HERE, "seeded", sid, "meta.json")
                meta = json.load(open(mp))
                meta["detected_by"].update(results)
                json.dump(meta, open(mp, "w"), indent=1)
                bad += sum(1 for r in results.values() if r["rc"] != 1)
        return 1 if bad else 0
    bad = 0
    for sid in ids:
        d = os.path.join(HERE, "seeded", sid)
        meta_p = os.path.join(d, "meta.json")
        if not os.path.exists(meta_p):
            continue
        meta = json.load(open(meta_p))
        props = args.props.split(",") if args.props else [meta["property"]]
        if sh(["git", "status", "--porcelain"], cwd="/repo")[1].strip():
            print("/repo is not clean; refusing")
            return 2
        rc, out = sh(["git", "apply", os.path.join(d, "patch.diff")], cwd="/repo")
        if rc != 0:
            print(sid, "patch does not apply to /repo:", out[-200:])
            bad += 1
            continue
        try:
            for prop in props:
                env = dict(os.environ, VERIF_OUT=os.path.join("/dev/shm", "seeded_out"))
                rc, out = sh([PY, os.path.join(HERE, "check.py"), prop, "--tier", args.tier], cwd=HERE, env=env, timeout=3600)
                detail = [l for l in out.splitlines() if l.startswith("  {")][:1]
                print(f"{sid:10s} {prop} {'DETECTED' if rc == 1 else 'MISSED rc=' + str(rc)} {(detail or [''])[0][:170]}")
                meta["detected_by"][f"{prop}:{args.tier}"] = {"rc": rc, "detail": (detail or [""])[0][:300]}
                if rc != 1:
                    bad += 1
        finally:
            sh(["git", "checkout", "--", "."], cwd="/repo")
        with open(meta_p, "w") as f:
            json.dump(meta, f, indent=1)
    shutil.rmtree("/dev/shm/seeded_out", ignore_errors=True)
    return 1 if bad else 0


def revalidate(args):
    """Re-confirm stored seeded changes against /repo's current HEAD (fix commits made after a change was
    produced can make it harmless).  Uses one scratch worktree, removed afterwards."""
    wt = "/tmp/wt_revalidate"
    sh(["git", "-C", "/repo", "worktree", "remove", "--force", wt])
    rc, out = sh(["git", "-C", "/repo", "worktree", "add", "-q", "--detach", wt, "HEAD"])
    if rc != 0:
        print(out)
        return 2
    try:
        for sid in args.ids or sorted(os.listdir(os.path.join(HERE, "seeded"))):
            d = os.path.join(HERE, "seeded", sid)
            mp = os.path.join(d, "meta.json")
            if not os.path.exists(mp):
                continue
            meta = json.load(open(mp))
            os.makedirs(os.path.join(wt, "demo"), exist_ok=True)
            shutil.copy(os.path.join(d, "demo.py"), os.path.join(wt, "demo", "demo_x.py"))
            text = open(os.path.join(wt, "demo", "demo_x.py")).read()
            # demos refer to their original scratch worktree by absolute path
            import re
            text = re.sub(r"/tmp/wt_C[0-9]+", wt, text)
            open(os.path.join(wt, "demo", "demo_x.py"), "w").write(text)
            rc0, out0 = run_demo(wt, "demo_x.py")
            rc, out = sh(["git", "apply", os.path.join(d, "patch.diff")], cwd=wt)
            if rc != 0:
                status = "patch-no-longer-applies"
                rc1 = None
            else:
                ok, tline = run_tests(wt)
                rc1, out1 = run_demo(wt, "demo_x.py")
                sh(["git", "checkout", "--", "src"], cwd=wt)
                status = "valid" if (ok and rc0 == 0 and rc1 != 0) else "harmless-on-head" if rc1 == 0 else "invalid"
            meta["on_head"] = {"status": status, "head": sh(["git", "-C", "/repo", "log", "--format=%h", "-1"])[1].strip(),
                               "demo_without_patch_rc": rc0, "demo_with_patch_rc": rc1}
            json.dump(meta, open(mp, "w"), indent=1)
            print(f"{sid:8s} {status} (demo without patch rc={rc0}, with patch rc={rc1})", flush=True)
    finally:
        sh(["git", "-C", "/repo", "worktree", "remove", "--force", wt])
        sh(["git", "-C", "/repo", "worktree", "prune"])
    return 0


def summary(args):
    """Rewrite seeded/SUMMARY.md from the meta.json files."""
    import re

    rows, own, other, rest = [], 0, 0, []
    for sid in sorted(os.listdir(os.path.join(HERE, "seeded"))):
        mp = os.path.join(HERE, "seeded", sid, "meta.json")
        if not os.path.exists(mp):
            continue
        meta = json.load(open(mp))
        patch = open(os.path.join(HERE, "seeded", sid, "patch.diff")).read()
        files = sorted({m.replace("src/gwf/", "") for m in re.findall(r"^\+\+\+ b/(\S+)", patch, re.M)})
        det = meta.get("detected_by", {})
        mine = det.get(f"{meta['property']}:quick", {}).get("rc") == 1
        others = sorted(k.split(":")[0] for k, v in det.items() if v.get("rc") == 1 and not k.startswith(meta["property"] + ":"))
        note = ""
        if meta.get("on_head", {}).get("status") == "harmless-on-head":
            note = "harmless on HEAD after a later repair"
        elif meta.get("on_head", {}).get("status") == "patch-no-longer-applies":
            note = "patch no longer applies to HEAD"
        if meta.get("not_decided_by_property"):
            note = "not decided by the property text (see meta.json)"
        if meta.get("not_reached"):
            note = "not reached by the generators (reason in meta.json)"
        if mine:
            own += 1
        elif others:
            other += 1
        else:
            rest.append(sid)
        rows.append(f"| {sid} | {', '.join(files)} | {'yes' if mine else 'no'} | {','.join(others)} | {note} |")
    with open(os.path.join(HERE, "seeded", "SUMMARY.md"), "w") as f:
        f.write("# Seeded changes: detection by the quick tiers\n\n"
                "Produced by independent sub-agents (property text + scratch worktree only), confirmed before adoption,\n"
                "re-confirmed against HEAD with `tools/seeded.py revalidate`, run with `tools/seeded.py run --scratch`;\n"
                "this table is written by `tools/seeded.py summary`. <ID>-1..2 first round, -3..4 second, -5..6 third, -7..8 fourth.\n\n"
                "| id | files touched | own check | other checks that detect it | note |\n|---|---|---|---|---|\n")
        f.write("\n".join(rows) + "\n\n")
        f.write(f"{len(rows)} changes: {own} detected by the check of their own property, {other} more by a neighbouring check, "
                f"undetected: {rest}.\n")
    print(f"{len(rows)} changes: own {own}, neighbour {other}, undetected {rest}")
    return 0


def main():
    ap = argparse.ArgumentParser()
    sub = ap.add_subparsers(dest="cmd", required=True)
    a = sub.add_parser("adopt")
    a.add_argument("prop")
    a.add_argument("worktree")
    a.add_argument("i")
    a.add_argument("--needs")
    a.add_argument("--as", dest="as_")
    r = sub.add_parser("run")
    r.add_argument("ids", nargs="*")
    r.add_argument("--tier", default="quick")
    r.add_argument("--props")
    r.add_argument("--scratch", action="store_true", help="patch a scratch copy of /repo HEAD instead of /repo itself")
    r.add_argument("--jobs", type=int, default=5)
    v = sub.add_parser("revalidate")
    v.add_argument("ids", nargs="*")
    sub.add_parser("summary")
    args = ap.parse_args()
    sys.exit({"adopt": adopt, "run": run, "revalidate": revalidate, "summary": summary}[args.cmd](args))


main()
