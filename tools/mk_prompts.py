#!/venv/bin/python
"""Write the prompt for the sub-agent that produces seeded breaking changes for one property.

usage: tools/mk_prompts.py <round-tag> [ID ...]    ->  /tmp/agent_<ID>.txt

The sub-agent sees only the property text, its scratch worktree /tmp/wt_<ID> and the diffs of the changes already
tried for that property (which are changes to gwf produced by earlier sub-agents, nothing of the checks).
"""

import glob
import json
import os
import sys

HERE = os.path.dirname(os.path.dirname(os.path.abspath(__file__)))

HEAD = """You are working in a scratch git worktree of the open-source project gwforg/gwf (a make-like scientific workflow tool that builds a file-dependency DAG, decides staleness, and submits targets to Slurm/SGE/LSF or a local asyncio worker pool). The worktree is at __DIR__ . Work ONLY inside __DIR__ ; never touch /repo or /verif (do not even read /verif).

Python: /venv/bin/python has gwf's dependencies. Always run with PYTHONPATH=__DIR__/src so the worktree's source is the one imported. The existing test suite is run with:
  cd __DIR__ && PYTHONPATH=__DIR__/src /venv/bin/python -m pytest -q -p no:cacheprovider --timeout=900 --continue-on-collection-errors tests
76 tests pass; 23 items under tests/plugins and tests/test_cli.py error out because of a missing fixture - they do so with or without any change, ignore them. No network is available. Slurm/SGE/LSF are not installed; if you need them in a demo, fake the executables on PATH or monkeypatch gwf.backends.utils.call. Create temporary files only below __DIR__/demo/tmp and remove them when done.

THE PROPERTY (it holds in the current code):

__PROP__

ALREADY TRIED (do NOT repeat these or close variants of them; find different places and different mechanisms):

__TRIED__

YOUR TASK: produce TWO independent, small, realistic changes to the source under __DIR__/src/gwf, each of which BREAKS this property while the code still imports and all 76 existing tests still pass. The obvious mutations of the function the property names first are already covered, as are the ones listed above. __ROUND__ Each should still be the kind of slip a maintainer could make (a changed operator, a dropped guard, a moved line, a wrong key or variable, an off-by-one, a refactoring that is almost but not quite equivalent, two cooperating sites that each look fine alone) - not syntactic noise and not a deliberate back door. Each change must need something specific to manifest: a particular interleaving or event order, a crash or fault at a particular point, a multi-step sequence of operations, an unusual-but-legal input, or a particular combination of states - NOT something ordinary use of the tool would expose at once. The violation must be a violation of the property AS STATED (re-read the statement; a behaviour change the statement does not forbid does not count).

For each change i in {1,2}:
  1. Apply it, confirm the 76 tests still pass.
  2. Write a demonstration __DIR__/demo/demo_i.py (a plain script exiting non-zero on failure) that FAILS with the change and PASSES without it. Verify both directions yourself (e.g. with `git stash` / `git checkout -- src`).
  3. Save the change as __DIR__/demo/patch_i.diff (output of `git diff -- src`, applicable with `git apply` at the repository root), then revert src (`git checkout -- src`) before starting the next one.
Do not commit anything. At the end src must be unmodified and demo/ must contain patch_1.diff, demo_1.py, patch_2.diff, demo_2.py.

Report back, for each change: the diff, exactly what is needed for the violation to manifest, the command to run the demo, and the outcome you observed with and without the change.
"""

ROUNDS = {
    "r7": "This round: INTERACTIONS. The change must be invisible when each feature is used alone and show only when two of them meet: two backends used in one project; spec hashing together with name patterns or with touch/clean; target options together with templates and workflow defaults; protect sets together with shared files; cancel together with a later run; a sub-directory invocation together with a relative -f; symbolic links together with path normalisation; time limits together with cancellation in the local pool; two clients of the local pool at once; a failed dependency together with a later submission. Plausible maintenance work of at least two changed lines, the two changes in different files, no single-token mutations.",
    "r6": "This round: think about the BOUNDARIES of what this property covers. Empty things (a workflow with no targets, a target with no inputs or no outputs, an empty spec, an empty selection, zero matching names, an empty or missing state or configuration file), singletons, very large things (thousands of targets, very long names, paths or specs, large outputs), repeated things (the same command twice in a row, the same file listed twice in one target, the same name matched by two patterns, the same job id seen twice), things that change between two invocations (a target removed or renamed, a file replaced by a directory, a backend switched), and error paths (what gwf does after something else has already failed). Each change must read like plausible maintenance work of at least two changed lines, and the two changes must be in different files. No single-token mutations.",
    "r5": "This round: NO single-token mutations. Each change must read like honest work by a maintainer - a refactoring, a clean-up, a performance tweak, a small feature or a 'robustness' fix of at least three changed lines whose author believes it preserves behaviour - that differs from the original in a corner this property covers. Aim for the less-travelled combinations: the SGE, LSF or local backends; target options and workflow defaults; templates and map; name patterns with ? and []; dotted target names; PathLike, tuple, nested or dict-valued inputs/outputs; symbolic links; spec hashing being switched on or off between invocations; histories of several gwf invocations; invocation from a sub-directory or with -f. The two changes must be in different files.",
    "r4": "This round: at least ONE of your two changes must be OUTSIDE the files named in the code anchors - in a layer the property depends on indirectly (command-line/plugin option handling, configuration lookup, backend selection and loading, workflow loading, path or name helpers, logging set-up, persistence helpers, the way one module consumes another's return value). The other may be anywhere but must use a mechanism different from all of the listed ones.",
}


def main():
    tag = sys.argv[1]
    ids = sys.argv[2:] or [f"C{i:02d}" for i in range(1, 21)]
    props = {}
    for line in open(os.path.join(HERE, "properties.jsonl")):
        p = json.loads(line)
        props[p["id"]] = p
    for pid in ids:
        p = props[pid]
        text = (f"{pid}: {p['title']}\n\nSTATEMENT: {p['statement']}\n\nQUANTIFIED OVER: {p['quantifier']}\n\n"
                f"WHY EXISTING TESTS CANNOT SETTLE IT: {p['why_tests_cant']}\n\n"
                f"CODE ANCHORS: {json.dumps(p['anchors'])}")
        tried = []
        for d in sorted(glob.glob(os.path.join(HERE, "seeded", pid + "-*"))):
            tried.append("```diff\n" + open(os.path.join(d, "patch.diff")).read().rstrip() + "\n```")
        out = (HEAD.replace("__PROP__", text).replace("__TRIED__", "\n".join(tried)).replace("__ROUND__", ROUNDS[tag])
               .replace("__DIR__", f"/tmp/wt_{pid}"))
        with open(f"/tmp/agent_{pid}.txt", "w") as f:
            f.write(out)
        print(pid, len(out))


main()
