#!/bin/bash
# Run every thorough tier once (sequentially; each uses 16 worker processes), evidence redirected;
# the full output of each check is kept in $out/logs/<ID>.log.
cd /verif
out=${THOROUGH_OUT:-/dev/shm/thorough_out}
mkdir -p $out/logs
for i in ${1:-$(seq -w 1 20)}; do
  p=C$i
  s=$(date +%s)
  VERIF_OUT=$out VERIF_SEED=${VERIF_SEED:-1} timeout 5400 /venv/bin/python check.py $p --tier thorough > $out/logs/$p.log 2>&1
  rc=$?
  r=$(tail -4 $out/logs/$p.log | grep -E "^C[0-9]+ tier|^OK|^VIOLATION|^HARNESS" | tr '\n' ' ')
  echo "$p $(( $(date +%s) - s ))s rc=$rc :: $r"
done
