#!/bin/bash
# Run every thorough tier once (sequentially; each uses 16 worker processes), evidence redirected.
cd /verif
out=/dev/shm/thorough_out
mkdir -p $out
for i in ${1:-$(seq -w 1 20)}; do
  p=C$i
  s=$(date +%s)
  r=$(VERIF_OUT=$out VERIF_SEED=${VERIF_SEED:-1} timeout 5400 /venv/bin/python check.py $p --tier thorough 2>&1 | tail -4 | grep -E "^C[0-9]+ tier|^OK|^VIOLATION|^HARNESS" | tr '\n' ' ')
  echo "$p $(( $(date +%s) - s ))s :: $r"
done
