#!/venv/bin/python
"""Single entry point:  check.py <ID> [--tier quick|thorough] [--replay FILE] [--jobs N]

exit 0  property held on everything explored (KNOWN-FINDING lines possible)
exit 1  a line  VIOLATION property=<ID> replay=<path>
exit 2  harness error (never reported as a violation)
"""

import argparse
import os
import subprocess
import sys

HERE = os.path.dirname(os.path.abspath(__file__))


def _bootstrap():
    src = os.environ.get("GWF_VERIF_SRC", "/repo/src")
    os.environ["GWF_VERIF_SRC"] = src
    os.environ.setdefault("PYTHONHASHSEED", "0")
    deps = os.path.join(HERE, ".deps")
    for p in (deps, HERE, src):
        if p in sys.path:
            sys.path.remove(p)
        sys.path.insert(0, p)
    try:
        import hypothesis  # noqa: F401
    except ImportError:
        subprocess.run(
            [sys.executable, "-m", "pip", "install", "-q", "--no-index", "--find-links",
             "/opt/veriftools/wheels", "--target", deps, "hypothesis"],
            check=False,
        )
        import importlib

        importlib.invalidate_caches()
    import gwf

    if not os.path.abspath(gwf.__file__).startswith(os.path.abspath(src) + os.sep):
        print(f"HARNESS-ERROR gwf imported from {gwf.__file__}, expected under {src}")
        sys.exit(2)


def main():
    ap = argparse.ArgumentParser()
    ap.add_argument("prop")
    ap.add_argument("--tier", default=os.environ.get("VERIF_TIER", "quick"),
                    choices=["quick", "thorough"])
    ap.add_argument("--replay")
    ap.add_argument("--jobs", type=int)
    ap.add_argument("--seed", type=int)
    args = ap.parse_args()
    _bootstrap()
    try:
        seed = args.seed if args.seed is not None else int(os.environ.get("VERIF_SEED", "1"))
    except ValueError:
        seed = 1
    from vlib import runner, scratch

    os.chdir(HERE)
    pid = args.prop.upper()
    tmp = scratch.create()
    try:
        rc = runner.main_property(f"props.{pid.lower()}", args.tier, seed, args.replay, args.jobs)
    finally:
        scratch.remove(tmp)
    sys.stdout.flush()
    sys.exit(rc)


if __name__ == "__main__":
    main()
